/-
Line-protocol engine for C16 (anti-entropy). See go/overlay/internal/verifharness/c16.

Engine state: the agent's configuration, its local state and the node's catalog entries.
Every operation prints its result followed by the canonical dump of both sides:
  n=<nodeInfoInSync> S=<local services> C=<local checks> | N=<catalog node> s=<services> c=<checks>
lists sorted by id; a local record is `id!G!insync` (placeholder) or
`id!E!<def>!tok!isLocal!inSync!deleted`; a service definition is `name;tags;eto;port;ta`
(tags joined by `+`, tagged addresses `key~val` joined by `+`), a check definition
`sid;status;sname;stags;rest`. A sync line ends with `T=` the list of the RPCs issued, in order
(see `encCall`).
-/
import CV.AETok
namespace CV.Engine.C16
open CV CV.AE

structure EState where
  cfg : Cfg
  l : Local
  c : Cat

def init : EState := ⟨{ nodeVal := 0, cfgTok := "", userTok := "" }, Local.empty, Cat.empty⟩

/-! ### decoding -/

def decPlus (tok : String) : List String := if tok == "-" then [] else tok.splitOn "+"
def encPlus (l : List String) : String := if l.isEmpty then "-" else "+".intercalate l

def decTags (tok : String) : Option (List String) := (decPlus tok).mapM decS

def decTa (tok : String) : Option (List (String × Nat)) :=
  (decPlus tok).mapM fun kv =>
    match kv.splitOn "~" with
    | [k, v] => do let k ← decS k; let v ← v.toNat?; pure (k, v)
    | _ => none

def decSvcDef (tok : String) : Option SvcDef :=
  match tok.splitOn ";" with
  | [n, t, e, p, a] => do
      let name ← decS n; let tags ← decTags t; let eto ← decBool e; let port ← p.toNat?; let ta ← decTa a
      pure ⟨name, tags, eto, port, ta⟩
  | _ => none

def decChkDef (tok : String) : Option ChkDef :=
  match tok.splitOn ";" with
  | [s, st, n, t, r] => do
      let sid ← decS s; let status ← st.toNat?; let sname ← decS n; let stags ← decTags t; let rest ← r.toNat?
      pure ⟨sid, status, sname, stags, rest⟩
  | _ => none

def decChkItem (tok : String) : Option (Id × ChkDef) :=
  match tok.splitOn "!" with
  | [k, d] => do let k ← decS k; let d ← decChkDef d; pure (k, d)
  | _ => none

def decOutcome (t : String) : Option Outcome :=
  if t == "ok" then some .ok else if t == "denied" then some .denied
  else if t == "fail" then some .fail else if t == "lost" then some .lost else none

structure FaultList where
  readSvcs : Bool := true
  readChks : Bool := true
  node : Outcome := .ok
  svc : List (Id × Outcome) := []
  chk : List (Id × Outcome) := []

/-- `rs!=!fail`, `rs!=!nomethod` (fallback to Catalog.NodeServices, behaves as ok), `rc!=!fail`,
    `n!=!<outcome>`, `s!<id>!<outcome>`, `c!<id>!<outcome>` -/
def decFault (fl : FaultList) (tok : String) : Option FaultList :=
  match tok.splitOn "!" with
  | [kind, id, o] =>
    if kind == "rs" then
      if o == "fail" then some { fl with readSvcs := false } else if o == "nomethod" then some fl else none
    else if kind == "rc" then
      if o == "fail" then some { fl with readChks := false } else none
    else do
      let id ← decS id
      let o ← decOutcome o
      if kind == "n" then pure { fl with node := o }
      else if kind == "s" then pure { fl with svc := fl.svc ++ [(id, o)] }
      else if kind == "c" then pure { fl with chk := fl.chk ++ [(id, o)] }
      else none
  | _ => none

def decFaults (tok : String) : Option Faults := do
  let fl ← (decList tok).foldlM decFault {}
  pure { readSvcs := fl.readSvcs, readChks := fl.readChks, node := fl.node
         svc := fun id => match AMap.get? fl.svc id with | some o => o | none => .ok
         chk := fun id => match AMap.get? fl.chk id with | some o => o | none => .ok }

def decIds (tok : String) : Option (List Id) := (decList tok).mapM decS

/-! ### canonical dump -/

def insertByKey {α : Type} (x : String × α) : List (String × α) → List (String × α)
  | [] => [x]
  | y :: ys => if x.1 < y.1 then x :: y :: ys else y :: insertByKey x ys

def sortByKey {α : Type} : List (String × α) → List (String × α)
  | [] => []
  | x :: xs => insertByKey x (sortByKey xs)

def encTags (l : List String) : String := encPlus (l.map encS)
def encTa (l : List (String × Nat)) : String := encPlus (l.map fun p => encS p.1 ++ "~" ++ toString p.2)

def encSvcDef (d : SvcDef) : String :=
  ";".intercalate [encS d.name, encTags d.tags, encBool d.eto, toString d.port, encTa d.ta]

def encChkDef (d : ChkDef) : String :=
  ";".intercalate [encS d.sid, toString d.status, encS d.sname, encTags d.stags, toString d.rest]

def encEnt {δ : Type} (encD : δ → String) (p : Id × Ent δ) : String :=
  match p.2 with
  | .ghost b => "!".intercalate [encS p.1, "G", encBool b]
  | .ent d tok loc b del => "!".intercalate [encS p.1, "E", encD d, encS tok, encBool loc, encBool b, encBool del]

/-- a check record also shows whether its defer timer is armed -/
def encChkEnt (l : Local) (p : Id × Ent ChkDef) : String :=
  match p.2 with
  | .ghost _ => encEnt encChkDef p
  | .ent .. => encEnt encChkDef p ++ "!" ++ encBool (l.armed p.1)

def dump (l : Local) (c : Cat) : String :=
  let ls := (sortByKey l.svcs).map (encEnt encSvcDef)
  let lc := (sortByKey l.chks).map (encChkEnt l)
  let cs := (sortByKey c.svcs).map fun p => encS p.1 ++ "!" ++ encSvcDef p.2
  let cc := (sortByKey c.chks).map fun p => encS p.1 ++ "!" ++ encChkDef p.2
  let cn := match c.node with | none => "-" | some v => toString v
  s!"n={encBool l.nodeInSync} S={encList ls} C={encList lc} | N={cn} s={encList cs} c={encList cc}"

def sortIds (l : List Id) : List Id := (sortByKey (l.map fun k => (k, ()))).map (·.1)

/-- one RPC as the servers see it: `kind!id!token!SkipNodeUpdate!piggy-backed checks!pulled-in service` -/
def encCall (c : Call) : String :=
  "!".intercalate [c.kind, encS c.id, encS c.tok, encBool c.skip, encPlus ((sortIds c.piggy).map encS), encS c.withSvc]

def encRes : Res → String
  | .ok => "ok" | .err => "err" | .panic => "panic"

def out (s : EState) (res : String) : EState × String := (s, res ++ " " ++ dump s.l s.c)

/-- an external writer (drift) registers through the same endpoint; it never touches node info
    unless it has to create the node (then with foreign node info `0`) -/
def driftReg (s : EState) (svc : Option (Id × SvcDef)) (chks : List (Id × ChkDef)) : EState × String :=
  match s.c.register { nodeVal := 0, skipNode := true, svc := svc, chks := chks } with
  | none => out s "err"
  | some c' => out { s with c := c' } "ok"

def step (s : EState) (toks : List String) : EState × String :=
  match toks with
  | ["reset", v, ct, ut] =>
    match v.toNat?, decS ct, decS ut with
    | some v, some ct, some ut => ({ cfg := { nodeVal := v, cfgTok := ct, userTok := ut }, l := Local.empty, c := Cat.empty }, "ok")
    | _, _, _ => (s, "bad-op")
  | ["reset", v, ct, ut, cui] =>
    match v.toNat?, decS ct, decS ut, decBool cui with
    | some v, some ct, some ut, some cui =>
      ({ cfg := { nodeVal := v, cfgTok := ct, userTok := ut, cui := cui }, l := Local.empty, c := Cat.empty }, "ok")
    | _, _, _, _ => (s, "bad-op")
  | ["reset", v, ct, ut, cui, atok] =>
    match v.toNat?, decS ct, decS ut, decBool cui, decS atok with
    | some v, some ct, some ut, some cui, some atok =>
      ({ cfg := { nodeVal := v, cfgTok := ct, userTok := ut, cui := cui, agentTok := atok }, l := Local.empty, c := Cat.empty }, "ok")
    | _, _, _, _, _ => (s, "bad-op")
  | ["agenttok", atok] =>
    match decS atok with
    | some atok => ({ s with cfg := { s.cfg with agentTok := atok } }, "ok")
    | _ => (s, "bad-op")
  | ["fire", k] =>
    match decS k with
    | some k => out { s with l := fire s.l k } "ok"
    | _ => (s, "bad-op")
  | ["addsvc", id, d, tok, loc, cs] =>
    match decS id, decSvcDef d, decS tok, decBool loc, (decList cs).mapM decChkItem with
    | some id, some d, some tok, some loc, some cs =>
      let (r, l') := addSvcN s.l id d tok loc cs
      out { s with l := l' } (encRes r)
    | _, _, _, _, _ => (s, "bad-op")
  | ["addchk", k, d, tok, loc] =>
    match decS k, decChkDef d, decS tok, decBool loc with
    | some k, some d, some tok, some loc =>
      let (r, l') := addChk1 s.l k d tok loc
      out { s with l := l' } (encRes r)
    | _, _, _, _ => (s, "bad-op")
  | ["rmsvc", id, ks] =>
    match decS id, decIds ks with
    | some id, some ks =>
      let (r, l') := rmSvc s.l id ks
      out { s with l := l' } (encRes r)
    | _, _ => (s, "bad-op")
  | ["rmchk", k] =>
    match decS k with
    | some k =>
      let (r, l') := rmChk s.l k
      out { s with l := l' } (encRes r)
    | _ => (s, "bad-op")
  | ["updchk", k, st] =>
    match decS k, st.toNat? with
    | some k, some st => out { s with l := updChk s.cfg.cui s.l k st } "ok"
    | _, _ => (s, "bad-op")
  | ["dsvc", id, d] =>
    match decS id, decSvcDef d with
    | some id, some d => driftReg s (some (id, d)) []
    | _, _ => (s, "bad-op")
  | ["dchk", k, d] =>
    match decS k, decChkDef d with
    | some k, some d => driftReg s none [(k, d)]
    | _, _ => (s, "bad-op")
  | ["drmsvc", id] =>
    match decS id with
    | some id => out { s with c := s.c.deregSvc id } "ok"
    | _ => (s, "bad-op")
  | ["drmchk", k] =>
    match decS k with
    | some k => out { s with c := s.c.deregChk k } "ok"
    | _ => (s, "bad-op")
  | ["dnode", v] =>
    match v.toNat? with
    | some v => out { s with c := s.c.regNode v false } "ok"
    | _ => (s, "bad-op")
  | ["drmnode"] => out { s with c := s.c.deregNode } "ok"
  | [kind, fs, so, co] =>
    if kind == "full" || kind == "partial" then
      match decFaults fs, decIds so, decIds co with
      | some f, some so, some co =>
        let r := if kind == "full" then syncFull s.cfg ⟨so, co⟩ f s.l s.c
                 else syncChanges s.cfg ⟨so, co⟩ f s.l s.c
        let tr := if kind == "full" then syncFullTrace s.cfg ⟨so, co⟩ f s.l s.c
                  else syncChangesTrace s.cfg ⟨so, co⟩ f s.l s.c
        let (s', o) := out { s with l := r.l, c := r.c } (if r.ok then "ok" else "err")
        (s', o ++ " T=" ++ encList (tr.map encCall))
      | _, _, _ => (s, "bad-op")
    else (s, "bad-op")
  | ["ae", st, paused, ev, ok] =>
    let st? : Option AeState :=
      if st == "fullSync" then some .fullSync else if st == "partialSync" then some .partialSync
      else if st == "retryFullSync" then some .retryFullSync else if st == "done" then some .done else none
    let ev? : Option AeEvent :=
      if ev == "syncFullNotif" then some .syncFullNotif else if ev == "syncFullTimer" then some .syncFullTimer
      else if ev == "syncChangesNotif" then some .syncChangesNotif else if ev == "shutdown" then some .shutdown else none
    match st?, decBool paused, ev?, decBool ok with
    | some st, some p, some ev, some ok =>
      match aeNext st p ev ok with
      | none => (s, "panic")
      | some (a, n) =>
        let a := match a with | .idle => "none" | .runFull => "full" | .runPartial => "partial"
        let n := match n with | .fullSync => "fullSync" | .partialSync => "partialSync" | .retryFullSync => "retryFullSync" | .done => "done"
        (s, a ++ " " ++ n)
    | _, _, _, _ => (s, "bad-op")
  | _ => (s, "bad-op")

def engine : Engine := { State := EState, init := init, step := step }

end CV.Engine.C16
