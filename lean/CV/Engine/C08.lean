/-
Line-protocol engine for C08 (ACL decisions). See go/overlay/internal/verifharness/c08.

Tokens
  policy   `<acl><keyring><operator><mesh><peering>` (one level char each) followed by `,rule` …
  rule     `<kind><0|1 prefix><policy char><intentions char>;<name>`
  level    `-` empty string, `!` not a level, `d r l w` (any letter case) the level
  kind     `a` agent `k` key `n` node `s` service `x` session `e` event `q` query
  policies policy tokens joined by `|`, `-` = none
  svc id   `<name>;<dc>+<dc>…`     node id `<name>;<dc>`
Operations
  auth <a|d|m> <policies> <names>                 stateless: parse, merge, load, decide
  reset <a|d|m> <dc>                               new store, new caches
  pol <id> <modidx> <tag> <dcs> <policy>  | delpol <id> | delrole <id> | deltok <secret>
  role <id> <policy ids> <svc ids> <node ids> [<templated policies>]
  tok <secret> <policy ids> <role ids> <svc ids> <node ids> [<templated policies>]
  templated policy   `<s|n|d|m|g|c template><0|1 variables present>;<name>;<dc>+<dc>…`
  compile <e|x> <policy ids> <names>               ACLPolicies.Compile through the shared caches (e: print hit + cache sizes)
  resolve <secret> <names>                         ACLResolver.ResolveToken through the shared caches
  purge                                            empty the caches
RPC mode (identity / role / policy TTL caches, CV.AclRpc)
  rreset <a|d> <dc> <a|d|e|y down policy> <token ttl> <policy ttl> <role ttl>    new store, caches, clock 0
  tick <n>                                         advance the clock
  net <0|1>                                        the RPCs to the servers fail / succeed
  rresolve <secret> <names>                        ACLResolver.ResolveToken through the TTL caches
-/
import CV.AclRpc
namespace CV.Engine.C08
open CV CV.Acl

def lvlOfChar (c : Char) : Option PStr :=
  match c.toLower with
  | '-' => some .empty
  | '!' => some .bad
  | 'd' => some (.lvl .deny)
  | 'r' => some (.lvl .read)
  | 'l' => some (.lvl .list)
  | 'w' => some (.lvl .write)
  | _ => none

def kindOfChar : Char → Option Kind
  | 'a' => some .agent | 'k' => some .key | 'n' => some .node | 's' => some .service
  | 'x' => some .session | 'e' => some .event | 'q' => some .query | _ => none

def parseRule (tok : String) : Option Rule :=
  match tok.splitOn ";" with
  | [h, n] =>
    match h.toList with
    | [k, p, a, i] => do
      let kind ← kindOfChar k
      let pfx ← decBool (String.singleton p)
      let pol ← lvlOfChar a
      let intent ← lvlOfChar i
      let name ← decB n
      pure ⟨kind, pfx, name, pol, intent⟩
    | _ => none
  | _ => none

def parsePolicy (tok : String) : Option Policy :=
  match tok.splitOn "," with
  | [] => none
  | h :: rs =>
    match h.toList with
    | [a, k, o, m, p] => do
      let acl ← lvlOfChar a
      let keyring ← lvlOfChar k
      let operator ← lvlOfChar o
      let mesh ← lvlOfChar m
      let peering ← lvlOfChar p
      let rules ← rs.mapM parseRule
      pure ⟨acl, keyring, operator, mesh, peering, rules⟩
    | _ => none

def parsePolicies (tok : String) : Option (List Policy) :=
  if tok == "-" then some [] else (tok.splitOn "|").mapM parsePolicy

def parseStatic (tok : String) : Option Static :=
  if tok == "a" then some .allowAll else if tok == "d" then some .denyAll
  else if tok == "m" then some .manageAll else none

def parseNames (tok : String) : Option (List Bytes) := (decList tok).mapM decB

def parseSvc (tok : String) : Option SvcId :=
  match tok.splitOn ";" with
  | [n, d] => do
    let name ← decB n
    let dcs ← (if d == "" then some [] else (d.splitOn "+").mapM decB)
    pure ⟨name, dcs⟩
  | _ => none

def parseNode (tok : String) : Option NodeId :=
  match tok.splitOn ";" with
  | [n, d] => do pure ⟨← decB n, ← decB d⟩
  | _ => none

def tmplOfChar : Char → Option Tmpl
  | 's' => some .service | 'n' => some .node | 'd' => some .dns | 'm' => some .nomadServer
  | 'g' => some .apiGateway | 'c' => some .nomadClient | _ => none

/-- `<template char><0|1 variables present>;<name>;<dc>+<dc>…` -/
def parseTp (tok : String) : Option TpId :=
  match tok.splitOn ";" with
  | [h, n, d] =>
    match h.toList with
    | [c, v] => do
      let tmpl ← tmplOfChar c
      let _ ← decBool (String.singleton v)
      let name ← decB n
      let dcs ← (if d == "" then some [] else (d.splitOn "+").mapM decB)
      pure ⟨tmpl, name, dcs⟩
    | _ => none
  | _ => none

def decChar : Dec → Char | .allow => 'a' | .deny => 'd' | .dflt => 'u'

def namelessReqs : List Req :=
  [.aclRead, .aclWrite, .snapshot, .intentionDefaultAllow, .keyringRead, .keyringWrite, .meshRead, .meshWrite,
   .peeringRead, .peeringWrite, .operatorRead, .operatorWrite, .nodeReadAll, .serviceReadAll, .serviceWriteAny,
   .nodeRead [120] true, .serviceRead [120] true]

def namedReqs (n : Bytes) : List Req :=
  [.agentRead n, .agentWrite n, .eventRead n, .eventWrite n, .intentionRead n, .intentionWrite n,
   .tpRead n, .tpWrite n, .keyRead n, .keyList n, .keyWrite n, .keyWritePrefix n, .nodeRead n false, .nodeWrite n,
   .queryRead n, .queryWrite n, .serviceRead n false, .serviceReadPrefix n, .serviceWrite n,
   .sessionRead n, .sessionWrite n]

/-- the decision vector: nameless requests, then `/` + the named requests for every name -/
def vector (f : Req → Dec) (names : List Bytes) : String :=
  String.ofList (namelessReqs.map fun r => decChar (f r)) ++
    String.join (names.map fun n => "/" ++ String.ofList ((namedReqs n).map fun r => decChar (f r)))

structure St where
  store : Store
  caches : Caches
  dflt : Static
  dc : Bytes
  cfg : RpcCfg := ⟨0, 0, 0, .extend, .denyAll, []⟩
  rst : RpcState := RpcState.empty
  now : Nat := 0
  up : Bool := true

def St.init : St := { store := Store.empty, caches := Caches.empty, dflt := .denyAll, dc := [] }

def parseDown (tok : String) : Option DownPolicy :=
  if tok == "a" then some .allow else if tok == "d" then some .deny
  else if tok == "e" then some .extend else if tok == "y" then some .async else none

def ok (s : St) : St × String := (s, "ok")
def bad (s : St) : St × String := (s, "bad-op")

def roleOp (s : St) (id pids svcs nodes tps : String) : St × String :=
  match decB id, parseNames pids, (decList svcs).mapM parseSvc, (decList nodes).mapM parseNode,
        (decList tps).mapM parseTp with
  | some id, some pids, some svcs, some nodes, some tps =>
    ok { s with store := s.store.putRole ⟨id, pids, svcs, nodes, tps⟩ }
  | _, _, _, _, _ => bad s

def tokOp (s : St) (sec pids rids svcs nodes tps : String) : St × String :=
  match decB sec, parseNames pids, parseNames rids, (decList svcs).mapM parseSvc, (decList nodes).mapM parseNode,
        (decList tps).mapM parseTp with
  | some sec, some pids, some rids, some svcs, some nodes, some tps =>
    ok { s with store := s.store.putToken ⟨sec, pids, rids, svcs, nodes, tps⟩ }
  | _, _, _, _, _, _ => bad s

def step (s : St) (toks : List String) : St × String :=
  match toks with
  | ["auth", d, ps, ns] =>
    match parseStatic d, parsePolicies ps, parseNames ns with
    | some d, some ps, some ns =>
      match ps.mapM parse with
      | none => (s, "err:parse")
      | some pps =>
        match newPolicyAuthorizer pps with
        | none => (s, "err:load")
        | some z => (s, s!"p={vector z.decide ns} c={vector (chain z d) ns}")
    | _, _, _ => bad s
  | ["reset", d, dc] =>
    match parseStatic d, decB dc with
    | some d, some dc => ok { St.init with dflt := d, dc := dc }
    | _, _ => bad s
  | ["pol", id, mi, tag, dcs, p] =>
    match decB id, mi.toNat?, tag.toNat?, parseNames dcs, parsePolicy p with
    | some id, some mi, some tag, some dcs, some p => ok { s with store := s.store.putDoc ⟨id, mi, tag, dcs, p⟩ }
    | _, _, _, _, _ => bad s
  | ["delpol", id] =>
    match decB id with
    | some id => ok { s with store := s.store.delDoc id }
    | none => bad s
  | ["delrole", id] =>
    match decB id with
    | some id => ok { s with store := s.store.delRole id }
    | none => bad s
  | ["deltok", sec] =>
    match decB sec with
    | some sec => ok { s with store := s.store.delToken sec }
    | none => bad s
  | ["role", id, pids, svcs, nodes] => roleOp s id pids svcs nodes "-"
  | ["tok", sec, pids, rids, svcs, nodes] => tokOp s sec pids rids svcs nodes "-"
  | ["role", id, pids, svcs, nodes, tps] => roleOp s id pids svcs nodes tps
  | ["tok", sec, pids, rids, svcs, nodes, tps] => tokOp s sec pids rids svcs nodes tps
  | ["compile", mode, ids, ns] =>
    match parseNames ids, parseNames ns, (mode == "e" || mode == "x") with
    | some ids, some ns, true =>
      let out := compile s.caches (ids.filterMap s.store.doc)
      let s' := { s with caches := out.caches }
      let pre := if mode == "e" then
          s!"h={encBool out.hit} pc={out.caches.parsed.length} ac={out.caches.authz.length} "
        else "h=- pc=- ac=- "
      match out.authz with
      | none => (s', pre ++ "err:compile")
      | some z => (s', pre ++ s!"p={vector z.decide ns}")
    | _, _, _ => bad s
  | ["resolve", sec, ns] =>
    match decB sec, parseNames ns with
    | some sec, some ns =>
      let (c', r) := resolveToken s.store s.dc s.caches sec
      let s' := { s with caches := c' }
      match r with
      | .error .root => (s', "err:root")
      | .error .notFound => (s', "err:notfound")
      | .error .compile => (s', "err:compile")
      | .ok z => (s', s!"c={vector (chain z s.dflt) ns}")
    | _, _ => bad s
  | ["purge"] => ok { s with caches := Caches.empty }
  | ["rreset", d, dc, dn, t1, t2, t3] =>
    match parseStatic d, decB dc, parseDown dn, t1.toNat?, t2.toNat?, t3.toNat? with
    | some d, some dc, some dn, some t1, some t2, some t3 =>
      ok { St.init with dflt := d, dc := dc, cfg := ⟨t1, t2, t3, dn, d, dc⟩ }
    | _, _, _, _, _, _ => bad s
  | ["tick", n] =>
    match n.toNat? with
    | some n => ok { s with now := s.now + n }
    | none => bad s
  | ["net", b] =>
    match decBool b with
    | some b => ok { s with up := b }
    | none => bad s
  | ["rresolve", sec, ns] =>
    match decB sec, parseNames ns with
    | some sec, some ns =>
      let (rst, r) := resolveRpc s.cfg s.up s.store s.now s.rst sec
      let s' := { s with rst := rst }
      match r with
      | .err .root => (s', "err:root")
      | .err .notFound => (s', "err:notfound")
      | .err .compile => (s', "err:compile")
      | .down => (s', s!"c={vector s.cfg.downAuthz.decide ns}")
      | .ok z => (s', s!"c={vector (chain z s.cfg.dflt) ns}")
    | _, _ => bad s
  | _ => bad s

def engine : Engine := { State := St, init := St.init, step := step }

end CV.Engine.C08
