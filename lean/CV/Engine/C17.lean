/- Line-protocol engine for C17 (peering import / export). See go/overlay/internal/verifharness/c17.

State: the mini-catalog `CV.Peer.Cat`, mirrored op by op with the real state store.
Ops (tokens separated by one space; strings are `CV.encS` tokens; `-` is an empty list / absent part):
  reset
  reg   <peer> <node> <nodeid> <addr> <svc> <chks>      svc  = sid;name;port      chks = chk|chk|…
  dereg <peer> <node> <sid> <cid>                       (FSM precedence: service, else check, else node)
  upd   <peer> <service> <insts>                        inst = node;nodeid;addr;sid;sname;port;chks   insts = inst,inst,…
  list  <peer> <names>                                  names = a,b,…
  csn   <peer> <service>
  dump
  exp   <peer> <cfg> <typical> <chains> <connect> <tgw> cfg = name;peer+peer+…,…   chains = name;target,…
  xreset | xlist <names> | xdata <service> <payload-number>    the exporter's duplicate suppression (CV.PeerExport)
chk = node~cid~sid~sname~status
-/
import CV.Peer
import CV.PeerExport
import CV.PeerIdx
namespace CV.Engine.C17
open CV CV.Peer

def sortStrs (l : List String) : List String := l.mergeSort (fun a b => decide (a ≤ b))

def decOpt (sep : String) (tok : String) : List String := if tok == "-" then [] else tok.splitOn sep

def parseChk (tok : String) : Option ChkDef :=
  match tok.splitOn "~" with
  | [n, c, i, sn, st] => do
      let n ← decS n; let c ← decS c; let i ← decS i; let sn ← decS sn; let st ← decS st
      pure ⟨n, c, i, sn, st⟩
  | _ => none

def parseChks (tok : String) : Option (List ChkDef) := (decOpt "|" tok).mapM parseChk

def parseSvc (tok : String) : Option (Option SvcDef) :=
  if tok == "-" then some none else
  match tok.splitOn ";" with
  | [i, n, p] => do
      let i ← decS i; let n ← decS n; let p ← p.toNat?
      pure (some ⟨i, n, p⟩)
  | _ => none

def parseInst (tok : String) : Option Inst :=
  match tok.splitOn ";" with
  | [n, id, a, i, sn, p, ks] => do
      let n ← decS n; let id ← decS id; let a ← decS a; let i ← decS i; let sn ← decS sn
      let p ← p.toNat?; let ks ← parseChks ks
      pure ⟨⟨n, id, a⟩, ⟨i, sn, p⟩, ks⟩
  | _ => none

def parseEntry (tok : String) : Option ExpEntry :=
  match tok.splitOn ";" with
  | [n, ps] => do
      let n ← decS n; let ps ← (decOpt "+" ps).mapM decS
      pure ⟨n, ps⟩
  | _ => none

def parseChain (tok : String) : Option Chain :=
  match tok.splitOn ";" with
  | [n, t] => do
      let n ← decS n; let t ← decS t
      pure ⟨n, t⟩
  | _ => none

def errName : Err → String
  | .missingNode => "missing-node"
  | .missingService => "missing-service"
  | .nodeReserved => "node-reserved"
  | .checkNodeMismatch => "check-node-mismatch"

def encOp : Op → String
  | .reg r =>
    let s := match r.svc with | some s => encS s.sid | none => "-"
    let ks := if r.chks.isEmpty then "-" else "+".intercalate (sortStrs (r.chks.map fun k => encS k.cid))
    s!"r;{encS r.node.name};{s};{ks}"
  | .deregSvc _ n i => s!"ds;{encS n};{encS i}"
  | .deregChk _ n k => s!"dc;{encS n};{encS k}"
  | .deregNode _ n => s!"dn;{encS n}"

def encRes (r : Res) : String :=
  if r.panic then "panic" else
  let st := match r.err with | some e => "err:" ++ errName e | none => "ok"
  s!"{st} log={encList (sortStrs (r.log.map encOp))}"

def encChk (k : Chk) : String :=
  s!"{encS k.cid}~{encS k.sid}~{encS k.sname}~{encS k.status}~{encS k.node}"

def encIx (ix : Ix) (k : IxKey) : String :=
  match ixGet ix k with
  | some e => s!"@{e.create}/{e.modify}"
  | none => "@?"

def dump (c : Cat) (ix : Ix) : String :=
  let ns := c.nodes.map fun x => s!"{encS x.peer};{encS x.name};{encS x.id};{encS x.addr}{encIx ix (nodeKey x)}"
  let ss := c.svcs.map fun x => s!"{encS x.peer};{encS x.node};{encS x.sid};{encS x.name};{x.port}{encIx ix (svcKey x)}"
  let ks := c.chks.map fun x => s!"{encS x.peer};{encS x.node};{encS x.cid};{encS x.sid};{encS x.sname};{encS x.status}{encIx ix (chkKey x)}"
  s!"N={encList (sortStrs ns)} S={encList (sortStrs ss)} C={encList (sortStrs ks)}"

def encCSN (x : CSN) : String :=
  let ks := sortStrs (x.chks.map encChk)
  let kk := if ks.isEmpty then "-" else "|".intercalate ks
  s!"{encS x.node.name};{encS x.node.id};{encS x.node.addr};{encS x.svc.sid};{encS x.svc.name};{x.svc.port};{kk}"

/-- The model is about case-normal names (see CV/Peer.lean): a name with an upper-case ASCII letter is
    rejected, except the fixed check id `serfHealth`. -/
def nameNormal (s : String) : Bool := s == "serfHealth" || s.all fun ch => !ch.isUpper

def tokNormal (tok : String) : Bool :=
  (tok.split (fun ch => ch == ';' || ch == ',' || ch == '|' || ch == '~' || ch == '+')).all fun piece =>
    let piece := piece.toString
    if piece.startsWith "=" || piece.startsWith "x" then
      match decS piece with
      | some s => nameNormal s
      | none => true
    else true

def stepX (x : PeerX.St) (toks : List String) : Option (PeerX.St × String) :=
  match toks with
  | ["xreset"] => some ({}, "ok")
  | ["xlist", names] =>
    match (decOpt "," names).mapM decS with
    | some ns =>
      let (x', sent) := PeerX.step .always x (.list ns)
      some (x', s!"{if sent then "sent" else "dup"} watched={encList (sortStrs (x'.watched.map encS))}")
    | none => none
  | ["xdata", n, h] =>
    match decS n, h.toNat? with
    | some n, some h =>
      let (x', sent) := PeerX.step .always x (.data n h)
      some (x', if sent then "sent" else "dup")
    | _, _ => none
  | _ => none

/-- new catalog, answer, and the Raft commands that were issued (each consumes one index) -/
def stepN (c : Cat) (ix : Ix) (toks : List String) : Cat × String × List Op :=
  match toks with
  | ["dump"] => (c, dump c ix, [])
  | ["reg", p, n, id, a, svc, ks] =>
    match decS p, decS n, decS id, decS a, parseSvc svc, parseChks ks with
    | some p, some n, some id, some a, some svc, some ks =>
      match register c ⟨p, ⟨n, id, a⟩, svc, ks⟩ with
      | .ok c' => (c', "ok", [.reg ⟨p, ⟨n, id, a⟩, svc, ks⟩])
      | .error e => (c, "err:" ++ errName e, [.reg ⟨p, ⟨n, id, a⟩, svc, ks⟩])
    | _, _, _, _, _, _ => (c, "bad-op", [])
  | ["dereg", p, n, i, k] =>
    match decS p, decS n, decS i, decS k with
    | some p, some n, some i, some k =>
      let op : Op := if i ≠ "" then .deregSvc p n i else if k ≠ "" then .deregChk p n k else .deregNode p n
      match applyOp c op with
      | .ok c' => (c', "ok", [op])
      | .error e => (c, "err:" ++ errName e, [op])
    | _, _, _, _ => (c, "bad-op", [])
  | ["upd", p, sn, insts] =>
    match decS p, decS sn, (decOpt "," insts).mapM parseInst with
    | some p, some sn, some is =>
      let r := handleUpdate c p sn is
      (r.cat, encRes r, r.log)
    | _, _, _ => (c, "bad-op", [])
  | ["list", p, names] =>
    match decS p, (decOpt "," names).mapM decS with
    | some p, some ns =>
      let r := handleList c p ns
      (r.cat, encRes r, r.log)
    | _, _ => (c, "bad-op", [])
  | ["csn", p, sn] =>
    match decS p, decS sn with
    | some p, some sn =>
      match csn c p sn with
      | .ok xs => (c, encList (sortStrs (xs.map encCSN)), [])
      | .error e => (c, "err:" ++ errName e, [])
    | _, _ => (c, "bad-op", [])
  | ["exp", p, cfg, typ, chains, conn, tgw] =>
    match decS p, (decOpt "," cfg).mapM parseEntry, (decOpt "," typ).mapM decS,
          (decOpt "," chains).mapM parseChain, (decOpt "," conn).mapM decS, (decOpt "," tgw).mapM decS with
    | some p, some cfg, some typ, some chains, some conn, some tgw =>
      let s := (sortStrs ((exportedFor cfg typ p).map encS)).eraseDups
      let d := (sortStrs ((exportedChains cfg typ chains conn tgw p).map encS)).eraseDups
      (c, s!"S={encList s} D={encList d}", [])
    | _, _, _, _, _, _ => (c, "bad-op", [])
  | _ => (c, "bad-op", [])

/-- importer state: catalog, index layer, next Raft index (the harness applies its first command at index 11) -/
structure ISt where
  cat  : Cat := {}
  ix   : Ix := []
  next : Nat := 11

def step (st : ISt × PeerX.St) (toks : List String) : (ISt × PeerX.St) × String :=
  if !toks.all tokNormal then (st, "non-normal-name")
  else match stepX st.2 toks with
    | some (x', out) => ((st.1, x'), out)
    | none =>
      match toks with
      | "xreset" :: _ | "xlist" :: _ | "xdata" :: _ => (st, "bad-op")
      | ["reset"] => (({}, st.2), "ok")
      | _ =>
        let (c', out, log) := stepN st.1.cat st.1.ix toks
        let (_, ix', next') := ixRun st.1.cat st.1.ix st.1.next log
        (({ cat := c', ix := ix', next := next' }, st.2), out)

def engine : Engine := { State := ISt × PeerX.St, init := ({}, {}), step := step }

end CV.Engine.C17
