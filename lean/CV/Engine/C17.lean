/- Line-protocol engine for C17 (peering import / export). See go/overlay/internal/verifharness/c17.

State: the mini-catalog `CV.Peer.Cat`, mirrored op by op with the real state store.
Ops (tokens separated by one space; strings are `CV.encS` tokens; `-` is an empty list / absent part):
  reset
  reg   <peer> <node> <nodeid> <addr> <svc> <chks>      svc  = sid;name;port      chks = chk|chk|…
  dereg <peer> <node> <sid> <cid>                       (FSM precedence: service, else check, else node)
  upd   <peer> <service> <insts>                        inst = node;nodeid;addr;sid;sname;port;chks   insts = inst,inst,…
  list  <peer> <names>                                  names = a,b,…
  csn   <peer> <service>
  dump
  exp   <peer> <cfg> <typical> <chains> <connect>       cfg = name;peer+peer+…,…
  xreset | xlist <names> | xdata <service> <payload-number>    the exporter's duplicate suppression (CV.PeerExport)
chk = node~cid~sid~sname~status
-/
import CV.Peer
import CV.PeerExport
namespace CV.Engine.C17
open CV CV.Peer

def sortStrs (l : List String) : List String := l.mergeSort (fun a b => decide (a ≤ b))

def decOpt (sep : String) (tok : String) : List String := if tok == "-" then [] else tok.splitOn sep

def parseChk (tok : String) : Option ChkDef :=
  match tok.splitOn "~" with
  | [n, c, i, sn, st] => do
      let n ← decS n; let c ← decS c; let i ← decS i; let sn ← decS sn; let st ← decS st
      pure ⟨n, c, i, sn, st⟩
  | _ => none

def parseChks (tok : String) : Option (List ChkDef) := (decOpt "|" tok).mapM parseChk

def parseSvc (tok : String) : Option (Option SvcDef) :=
  if tok == "-" then some none else
  match tok.splitOn ";" with
  | [i, n, p] => do
      let i ← decS i; let n ← decS n; let p ← p.toNat?
      pure (some ⟨i, n, p⟩)
  | _ => none

def parseInst (tok : String) : Option Inst :=
  match tok.splitOn ";" with
  | [n, id, a, i, sn, p, ks] => do
      let n ← decS n; let id ← decS id; let a ← decS a; let i ← decS i; let sn ← decS sn
      let p ← p.toNat?; let ks ← parseChks ks
      pure ⟨⟨n, id, a⟩, ⟨i, sn, p⟩, ks⟩
  | _ => none

def parseEntry (tok : String) : Option ExpEntry :=
  match tok.splitOn ";" with
  | [n, ps] => do
      let n ← decS n; let ps ← (decOpt "+" ps).mapM decS
      pure ⟨n, ps⟩
  | _ => none

def errName : Err → String
  | .missingNode => "missing-node"
  | .missingService => "missing-service"
  | .nodeReserved => "node-reserved"
  | .checkNodeMismatch => "check-node-mismatch"

def encOp : Op → String
  | .reg r =>
    let s := match r.svc with | some s => encS s.sid | none => "-"
    let ks := if r.chks.isEmpty then "-" else "+".intercalate (sortStrs (r.chks.map fun k => encS k.cid))
    s!"r;{encS r.node.name};{s};{ks}"
  | .deregSvc _ n i => s!"ds;{encS n};{encS i}"
  | .deregChk _ n k => s!"dc;{encS n};{encS k}"
  | .deregNode _ n => s!"dn;{encS n}"

def encRes (r : Res) : String :=
  if r.panic then "panic" else
  let st := match r.err with | some e => "err:" ++ errName e | none => "ok"
  s!"{st} log={encList (sortStrs (r.log.map encOp))}"

def encChk (k : Chk) : String :=
  s!"{encS k.cid}~{encS k.sid}~{encS k.sname}~{encS k.status}~{encS k.node}"

def dump (c : Cat) : String :=
  let ns := c.nodes.map fun x => s!"{encS x.peer};{encS x.name};{encS x.id};{encS x.addr}"
  let ss := c.svcs.map fun x => s!"{encS x.peer};{encS x.node};{encS x.sid};{encS x.name};{x.port}"
  let ks := c.chks.map fun x => s!"{encS x.peer};{encS x.node};{encS x.cid};{encS x.sid};{encS x.sname};{encS x.status}"
  s!"N={encList (sortStrs ns)} S={encList (sortStrs ss)} C={encList (sortStrs ks)}"

def encCSN (x : CSN) : String :=
  let ks := sortStrs (x.chks.map encChk)
  let kk := if ks.isEmpty then "-" else "|".intercalate ks
  s!"{encS x.node.name};{encS x.node.id};{encS x.node.addr};{encS x.svc.sid};{encS x.svc.name};{x.svc.port};{kk}"

/-- The model is about case-normal names (see CV/Peer.lean): a name with an upper-case ASCII letter is
    rejected, except the fixed check id `serfHealth`. -/
def nameNormal (s : String) : Bool := s == "serfHealth" || s.all fun ch => !ch.isUpper

def tokNormal (tok : String) : Bool :=
  (tok.split (fun ch => ch == ';' || ch == ',' || ch == '|' || ch == '~' || ch == '+')).all fun piece =>
    let piece := piece.toString
    if piece.startsWith "=" || piece.startsWith "x" then
      match decS piece with
      | some s => nameNormal s
      | none => true
    else true

def stepX (x : PeerX.St) (toks : List String) : Option (PeerX.St × String) :=
  match toks with
  | ["xreset"] => some ({}, "ok")
  | ["xlist", names] =>
    match (decOpt "," names).mapM decS with
    | some ns =>
      let (x', sent) := PeerX.step .always x (.list ns)
      some (x', s!"{if sent then "sent" else "dup"} watched={encList (sortStrs (x'.watched.map encS))}")
    | none => none
  | ["xdata", n, h] =>
    match decS n, h.toNat? with
    | some n, some h =>
      let (x', sent) := PeerX.step .always x (.data n h)
      some (x', if sent then "sent" else "dup")
    | _, _ => none
  | _ => none

def stepN (c : Cat) (toks : List String) : Cat × String :=
  match toks with
  | ["reset"] => ({}, "ok")
  | ["dump"] => (c, dump c)
  | ["reg", p, n, id, a, svc, ks] =>
    match decS p, decS n, decS id, decS a, parseSvc svc, parseChks ks with
    | some p, some n, some id, some a, some svc, some ks =>
      match register c ⟨p, ⟨n, id, a⟩, svc, ks⟩ with
      | .ok c' => (c', "ok")
      | .error e => (c, "err:" ++ errName e)
    | _, _, _, _, _, _ => (c, "bad-op")
  | ["dereg", p, n, i, k] =>
    match decS p, decS n, decS i, decS k with
    | some p, some n, some i, some k =>
      let op : Op := if i ≠ "" then .deregSvc p n i else if k ≠ "" then .deregChk p n k else .deregNode p n
      match applyOp c op with
      | .ok c' => (c', "ok")
      | .error e => (c, "err:" ++ errName e)
    | _, _, _, _ => (c, "bad-op")
  | ["upd", p, sn, insts] =>
    match decS p, decS sn, (decOpt "," insts).mapM parseInst with
    | some p, some sn, some is =>
      let r := handleUpdate c p sn is
      (r.cat, encRes r)
    | _, _, _ => (c, "bad-op")
  | ["list", p, names] =>
    match decS p, (decOpt "," names).mapM decS with
    | some p, some ns =>
      let r := handleList c p ns
      (r.cat, encRes r)
    | _, _ => (c, "bad-op")
  | ["csn", p, sn] =>
    match decS p, decS sn with
    | some p, some sn =>
      match csn c p sn with
      | .ok xs => (c, encList (sortStrs (xs.map encCSN)))
      | .error e => (c, "err:" ++ errName e)
    | _, _ => (c, "bad-op")
  | ["exp", p, cfg, typ, chains, conn] =>
    match decS p, (decOpt "," cfg).mapM parseEntry, (decOpt "," typ).mapM decS,
          (decOpt "," chains).mapM decS, (decOpt "," conn).mapM decS with
    | some p, some cfg, some typ, some chains, some conn =>
      let s := (sortStrs ((exportedFor cfg typ p).map encS)).eraseDups
      let d := (sortStrs ((exportedChains cfg typ chains conn p).map encS)).eraseDups
      (c, s!"S={encList s} D={encList d}")
    | _, _, _, _, _ => (c, "bad-op")
  | _ => (c, "bad-op")

def step (st : Cat × PeerX.St) (toks : List String) : (Cat × PeerX.St) × String :=
  if !toks.all tokNormal then (st, "non-normal-name")
  else match stepX st.2 toks with
    | some (x', out) => ((st.1, x'), out)
    | none =>
      match toks with
      | "xreset" :: _ | "xlist" :: _ | "xdata" :: _ => (st, "bad-op")
      | _ => let (c', out) := stepN st.1 toks; ((c', st.2), out)

def engine : Engine := { State := Cat × PeerX.St, init := ({}, {}), step := step }

end CV.Engine.C17
