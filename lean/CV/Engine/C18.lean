/- Line-protocol engine for C18 (resource store). See go/overlay/internal/verifharness/c18. -/
import CV.Res
import CV.ResLin
import CV.Engine.C18Codec
import CV.Engine.C18Svc
namespace CV.Engine.C18
open CV CV.Res

/-! ### engine state: the sequential world + the history being collected -/

structure St where
  w    : World
  hist : Lin.Hist
  svc  : C18Svc.SSt := {}   -- the service-level world (ops starting with `S`, see CV.Engine.C18Svc)
  live : Bool := false      -- compare with the repaired index guard (`Watch.nextLive`), see `cfg guard-live`

def bad (s : St) : St × String := (s, "bad-op")

def parseOp (toks : List String) : Option WOp :=
  match toks with
  | ["w", r] => do pure (.bwrite (← parseRes r))
  | ["sw", r, v] => do pure (.swrite (← parseRes r) (← decS v))
  | ["d", i, v] => do pure (.delete (← parseID i) (← decS v))
  | ["rw", idx, r] => do pure (.rwrite (← idx.toNat?) (← parseRes r))
  | ["rd", i, v] => do pure (.rdelete (← parseID i) (← decS v))
  | ["r", i] => do pure (.read (← parseID i))
  | ["l", q] => do pure (.list (← parseQuery q))
  | ["lo", i] => do pure (.listOwner (← parseID i))
  | ["wo", q] => do pure (.wopen (← parseQuery q))
  | ["wn", h] => do pure (.wnext (← parseHandle h))
  | ["wc", h] => do pure (.wclose (← parseHandle h))
  | ["pump"] => some .pump
  | ["snap"] => some .snap
  | ["restore", rs] => do pure (.restore (← parseRows rs))
  | _ => none

def encOut (op : WOp) : WOut → String
  | .wres .ok stored => (match op with | .swrite .. => "ok" | _ => "ok " ++ encRes stored)
  | .wres e _ => encWRes e
  | .dres ok => if ok then "ok" else "cas"
  | .rres r => encRead r
  | .rows l => encRows l
  | .handle h => s!"h{h}"
  | .next none => "nohandle"
  | .next (some r) => encNext r
  | .flag ok =>
    (match op with
     | .pump => if ok then "ok" else "empty"
     | _ => if ok then "ok" else "nohandle")
  | .unit => "ok"

def stepWorld (s : St) (toks : List String) : Option (St × String) :=
  match toks with
  | ["new"] => some ({ s with w := World.init }, "ok")
  | ["cfg", "guard-live", b] => do
    let b ← decBool b
    some ({ s with live := b }, "ok")
  | _ => do
    let op ← parseOp toks
    let (w', out) := s.w.step op s.live
    some ({ s with w := w' }, encOut op out)

/-! ### concurrent histories (see CV.ResLin) -/

def parseWEv (kind : String) (r : String) : Option WEv :=
  if kind == "u" then (parseRes r).map .upsert
  else if kind == "x" then (parseRes r).map .delete
  else none

/-- `hop <tid> <call> <ret> <kind> <args…> <result…>` -/
def parseHOp (toks : List String) : Option Lin.HOp :=
  match toks with
  | tid :: c :: r :: rest => do
    let tid ← tid.toNat?; let c ← c.toNat?; let r ← r.toNat?
    let mk (op : Lin.HCall) (res : Lin.HRet) : Option Lin.HOp := some ⟨tid, c, r, op, res⟩
    match rest with
    | ["w", res, vsn, "ok"] => do mk (.write (← parseRes res) (← decS vsn)) (.w .ok)
    | ["w", res, vsn, "cas"] => do mk (.write (← parseRes res) (← decS vsn)) (.w .cas)
    | ["w", res, vsn, "wronguid"] => do mk (.write (← parseRes res) (← decS vsn)) (.w .wrongUid)
    | ["d", i, vsn, "ok"] => do mk (.delete (← parseID i) (← decS vsn)) (.d true)
    | ["d", i, vsn, "cas"] => do mk (.delete (← parseID i) (← decS vsn)) (.d false)
    | ["r", i, "notfound"] => do mk (.read (← parseID i)) (.r .notFound)
    | ["r", i, "found", res] => do mk (.read (← parseID i)) (.r (.found (← parseRes res)))
    | ["r", i, "gvmismatch", res] => do mk (.read (← parseID i)) (.r (.gvMismatch (← parseRes res)))
    | ["l", q, rows] => do mk (.list (← parseQuery q)) (.l (← parseRows rows))
    | ["lo", i, rows] => do mk (.listOwner (← parseID i)) (.l (← parseRows rows))
    | ["restore", rows] => do mk (.restore (← parseRows rows)) .unit
    | _ => none
  | _ => none

/-- `hwatch <openCall> <openRet> <complete 0/1> <query> <events>` with events `u:<res>` / `x:<res>` / `e` / `c` -/
def parseWatchEv (tok : String) : Option Lin.SEv :=
  if tok == "e" then some .eos
  else if tok == "c" then some .closed
  else if tok.startsWith "u:" then (parseRes (tok.drop 2).toString).map .upsert
  else if tok.startsWith "x:" then (parseRes (tok.drop 2).toString).map .delete
  else none

def stepHist (s : St) (toks : List String) : Option (St × String) :=
  match toks with
  | ["hbegin"] => some ({ s with hist := {} }, "ok")
  | "hop" :: rest => do
      let o ← parseHOp rest
      some ({ s with hist := { s.hist with ops := o :: s.hist.ops } }, "ok")
  | ["hhint", evs] => do
      let evs ← (decList evs).mapM parseWatchEv
      some ({ s with hist := { s.hist with hint := evs } }, "ok")
  | ["hwatch", c, r, complete, q, evs] => do
      let c ← c.toNat?; let r ← r.toNat?; let complete ← decBool complete
      let q ← parseQuery q
      let evs ← (decList evs).mapM parseWatchEv
      some ({ s with hist := { s.hist with watches := ⟨c, r, complete, q, evs⟩ :: s.hist.watches } }, "ok")
  | ["hcheck"] =>
      let h : Lin.Hist := { s.hist with ops := s.hist.ops.reverse, watches := s.hist.watches.reverse }
      some ({ s with hist := {} }, Lin.verdict h)
  | _ => none

def step (s : St) (toks : List String) : St × String :=
  match stepWorld s toks with
  | some r => r
  | none =>
    match stepHist s toks with
    | some r => r
    | none =>
      match C18Svc.step s.svc toks with
      | some (svc', out) => ({ s with svc := svc' }, out)
      | none => bad s

def engine : Engine := { State := St, init := { w := World.init, hist := {} }, step := step }

end CV.Engine.C18
