/-
Line-protocol engine for C09 (ACL result filtering + token expiry).
See go/overlay/internal/verifharness/c09/main.go for the producer of these lines.

  f <Type> <authz-table> <aclRead> <aclWrite> <args…>      → filtered response in the same syntax, or `panic`
  x-begin <s|r> <ttl> <allow|deny|extend-cache|async-cache> → ok          (new resolver: server- or remote-backed)
  x-put <secret> <accessor> <exp|~> <grants> <link>         → ok          (state store upsert, server mode)
  x-del <secret>                                            → ok          (token deleted)
  x-env <acls 0|1> <tokenstore 0|1> <recovery> <srvmgmt>    → ok          (surroundings ResolveToken consults; default 1 0 "" "")
  x-exp <exp|~> <asOf>                                      → <HasExpirationTime> <IsExpired(asOf)>   (no resolver involved)
  x-filt <now> <secret> <n> <round>*n <Type> <args…>        → ok <filtered response> | panic | err <root-denied|notfound|denied>
        (filterACL: resolve the token, filter the subject with the authorizer; token authorizers follow the
         harness convention `tokenAuthz` below)
  x-res <now> <t|p|r> <secret> <round>*                     → t: granted <accessor> <grants> | notfound | down <0|1> | denied
                                                                 | manage-all | root-denied | recovery | server-mgmt
                                                              p,r: ok <accessor> | notfound | remote | denied
        (t = ResolveToken / ResolveTokenAndDefaultMeta, p / r = resolveTokenToIdentityAndPolicies / …AndRoles;
         remote mode: one <round> per possible loop round, `rpc;…;linkanswer`; server mode: none)
  x-mask <now> <secret> <flag> [rpc…]                       → 0 | 1
  x-read <now> <secret>                                     → found <accessor> | notfound      (ACL.TokenRead by secret)
  x-list <now>                                              → accessors of ACL.TokenList, sorted by the harness
  x-reap <now> <accessors the reaper deleted>               → ok | bad-reap                    (store updated)
  rpc… ::= found <secret> <accessor> <exp|~> <grants> <link> | foreign | notfound | error
  round ::= found;<secret>;<accessor>;<exp|~>;<grants |-separated>;<link>;<linkanswer> | foreign;<la> | notfound;<la> | error;<la>
  linkanswer ::= ok | notfound | denied | error

Lists: `,` (top level) and `|` (nested); item fields: `;` (top level) and `+` (nested); `-` = empty
list, `~` = nil. The authorizer travels as a decision table over the name universe
(`name;NSEKIQ` bits: node, service, session, key, intention, query); every string of the payload must
occur in the table, otherwise the line is rejected (`bad-op`) rather than defaulted.
-/
import CV.Filter
import CV.FilterExpiry
import CV.FilterACL
namespace CV.Engine.C09
open CV CV.Filter

def splitL (sep : String) (tok : String) : List String := if tok == "-" then [] else tok.splitOn sep
def joinL (sep : String) (l : List String) : String := if l.isEmpty then "-" else sep.intercalate l

def decOptS (tok : String) : Option (Option String) := if tok == "~" then some none else (decS tok).map some
def encOptS : Option String → String
  | none => "~"
  | some s => encS s

/-! ### authorizer table -/

structure Perm where
  n : Bool
  s : Bool
  e : Bool
  k : Bool
  i : Bool
  q : Bool

def parsePerm (tok : String) : Option (String × Perm) :=
  match tok.splitOn ";" with
  | [nm, bits] => do
    let nm ← decS nm
    match bits.toList.map (fun c => decBool (String.singleton c)) with
    | [some n, some s, some e, some k, some i, some q] => some (nm, ⟨n, s, e, k, i, q⟩)
    | _ => none
  | _ => none

def look (tbl : List (String × Perm)) (f : Perm → Bool) (nm : String) : Bool :=
  match tbl.find? fun e => e.1 = nm with
  | some e => f e.2
  | none => false      -- unreachable for accepted lines: `covered` is checked first

def mkAuthz (tbl : List (String × Perm)) (r w : Bool) : Authz :=
  { nodeRead := look tbl (·.n), serviceRead := look tbl (·.s), sessionRead := look tbl (·.e),
    keyRead := look tbl (·.k), intentionRead := look tbl (·.i), queryRead := look tbl (·.q),
    aclRead := r, aclWrite := w }

/-- every string-encoded sub-token of the payload names an entry of the table -/
def covered (tbl : List (String × Perm)) (args : List String) : Bool :=
  args.all fun a =>
    ((((a.splitOn ",").flatMap (·.splitOn ";")).flatMap (·.splitOn "|")).flatMap (·.splitOn "+")).all fun t =>
      if t.startsWith "=" || t.startsWith "x" then
        match decS t with
        | some s => tbl.any fun e => e.1 = s
        | none => false
      else true

/-! ### items -/

def encNodeEnt (c : NodeEnt) : String := s!"{encS c.node};{c.id}"
def decNodeEnt (t : String) : Option NodeEnt :=
  match t.splitOn ";" with
  | [n, i] => do some ⟨← decS n, ← i.toNat?⟩
  | _ => none

def encSvcEnt (c : SvcEnt) : String := s!"{encS c.node};{encS c.svc};{c.id}"
def decSvcEnt (t : String) : Option SvcEnt :=
  match t.splitOn ";" with
  | [n, s, i] => do some ⟨← decS n, ← decS s, ← i.toNat?⟩
  | _ => none

def encCSN (fs : String) (c : CSN) : String := fs.intercalate [encOptS c.node, encOptS c.svc, toString c.id]
def decCSN (fs : String) (t : String) : Option CSN :=
  match t.splitOn fs with
  | [n, s, i] => do some ⟨← decOptS n, ← decOptS s, ← i.toNat?⟩
  | _ => none
def encCSNs (ls fs : String) (xs : List CSN) : String := joinL ls (xs.map (encCSN fs))
def decCSNs (ls fs : String) (t : String) : Option (List CSN) := (splitL ls t).mapM (decCSN fs)

def encIxn (x : Ixn) : String := s!"{encS x.src};{encBool x.srcPeer};{encS x.dst};{x.id}"
def decIxn (t : String) : Option Ixn :=
  match t.splitOn ";" with
  | [s, p, d, i] => do some ⟨← decS s, ← decBool p, ← decS d, ← i.toNat?⟩
  | _ => none

def encGw (g : GwSvc) : String := s!"{encS g.gw};{encS g.svc};{g.id}"
def decGw (t : String) : Option GwSvc :=
  match t.splitOn ";" with
  | [g, s, i] => do some ⟨← decS g, ← decS s, ← i.toNat?⟩
  | _ => none

def encSvcInfo (s : SvcInfo) : String :=
  match s.gs with
  | none => s!"~;~;{encOptS s.node};{s.id}"
  | some g => s!"{encS g.1};{encS g.2};{encOptS s.node};{s.id}"
def decSvcInfo (t : String) : Option SvcInfo :=
  match t.splitOn ";" with
  | [g, s, n, i] => do
    let n ← decOptS n
    let i ← i.toNat?
    if g == "~" && s == "~" then some ⟨none, n, i⟩
    else some ⟨some (← decS g, ← decS s), n, i⟩
  | _ => none

def encSub (fs : String) (s : Sub) : String := s!"{encS s.1}{fs}{s.2}"
def decSub (fs : String) (t : String) : Option Sub :=
  match t.splitOn fs with
  | [n, i] => do some (← decS n, ← i.toNat?)
  | _ => none

def encNodeInfo (x : NodeInfo) : String :=
  s!"{encS x.node};{x.id};{joinL "|" (x.svcs.map (encSub "+"))};{joinL "|" (x.chks.map (encSub "+"))}"
def decNodeInfo (t : String) : Option NodeInfo :=
  match t.splitOn ";" with
  | [n, i, ss, cs] => do
    some ⟨← decS n, ← i.toNat?, ← (splitL "|" ss).mapM (decSub "+"), ← (splitL "|" cs).mapM (decSub "+")⟩
  | _ => none

def encPQ (q : PQ) : String := s!"{encS q.name};{encBool q.tmpl};{q.tok};{q.id}"
def decPQ (t : String) : Option PQ :=
  match t.splitOn ";" with
  | [n, tm, tk, i] => do
    let tk ← tk.toNat?
    if tk > 1 then none else some ⟨← decS n, ← decBool tm, tk, ← i.toNat?⟩
  | _ => none

def encAcl : Option AclObj → String
  | none => "~"
  | some o => s!"{o.id};{o.secret}"
def decAcl (t : String) : Option (Option AclObj) :=
  if t == "~" then some none else
  match t.splitOn ";" with
  | [i, s] => do
    let s ← s.toNat?
    if s != 1 then none else some (some ⟨← i.toNat?, s⟩)
  | _ => none

def encTxn : TxnRes → String
  | .kv k i => s!"k;{encS k};~;{i}"
  | .node n i => s!"n;{encS n};~;{i}"
  | .service s i => s!"s;{encS s};~;{i}"
  | .check n s i => s!"c;{encS n};{encS s};{i}"
  | .empty i => s!"e;~;~;{i}"
def decTxn (t : String) : Option TxnRes :=
  match t.splitOn ";" with
  | ["k", k, "~", i] => do some (.kv (← decS k) (← i.toNat?))
  | ["n", n, "~", i] => do some (.node (← decS n) (← i.toNat?))
  | ["s", s, "~", i] => do some (.service (← decS s) (← i.toNat?))
  | ["c", n, s, i] => do some (.check (← decS n) (← decS s) (← i.toNat?))
  | ["e", "~", "~", i] => do some (.empty (← i.toNat?))
  | _ => none

def decMapEntry {β : Type} (f : String → Option β) (t : String) : Option (String × β) :=
  match t.splitOn ";" with
  | [k, v] => do some (← decS k, ← f v)
  | _ => none

def decKeyed (t : String) : Option (String × Nat) :=
  match t.splitOn ";" with
  | [k, i] => do some (← decS k, ← i.toNat?)
  | _ => none
def encKeyed (e : String × Nat) : String := s!"{encS e.1};{e.2}"

def decNS (t : String) : Option (String × (String × Nat)) :=
  match t.splitOn ";" with
  | [k, n, i] => do some (← decS k, (← decS n, ← i.toNat?))
  | _ => none
def encNS (e : String × (String × Nat)) : String := s!"{encS e.1};{encS e.2.1};{e.2.2}"

def nodupKeys {β : Type} (m : List (String × β)) : Bool := (m.map (·.1)).eraseDups.length == m.length

def aclKindOf : String → Option (AclKind × Bool)     -- (kind, is the list form)
  | "ACLTokens" => some (.token, true) | "PtrACLToken" => some (.token, false)
  | "ACLTokenListStubs" => some (.tokenStub, true) | "PtrACLTokenListStub" => some (.tokenStub, false)
  | "ACLPolicies" => some (.policy, true) | "PtrACLPolicy" => some (.policy, false)
  | "ACLRoles" => some (.role, true) | "PtrACLRole" => some (.role, false)
  | "ACLBindingRules" => some (.bindingRule, true) | "PtrACLBindingRule" => some (.bindingRule, false)
  | "ACLAuthMethods" => some (.authMethod, true) | "PtrACLAuthMethod" => some (.authMethod, false)
  | _ => none

def parseResp (ty : String) (args : List String) : Option Resp :=
  match ty, args with
  | "CheckServiceNodes", [xs] => do some (.csns (← decCSNs "," ";" xs))
  | "IndexedCheckServiceNodes", [f, xs] => do some (.indexedCSNs (← decCSNs "," ";" xs) (← decBool f))
  | "PreparedQueryExecuteResponse", [f, xs] => do some (.pqExecute (← decCSNs "," ";" xs) (← decBool f))
  | "IndexedServiceTopology", [fb, f, "~"] => do some (.topology none (← decBool fb) (← decBool f))
  | "IndexedServiceTopology", [fb, f, u, d] => do
      some (.topology (some (← decCSNs "," ";" u, ← decCSNs "," ";" d)) (← decBool fb) (← decBool f))
  | "DatacenterIndexedCheckServiceNodes", [f, m] => do
      let m ← (splitL "," m).mapM (decMapEntry (decCSNs "|" "+"))
      if nodupKeys m then some (.dcCSNs m (← decBool f)) else none
  | "IndexedCoordinates", [f, xs] => do some (.coordinates (← (splitL "," xs).mapM decNodeEnt) (← decBool f))
  | "IndexedHealthChecks", [f, xs] => do some (.healthChecks (← (splitL "," xs).mapM decSvcEnt) (← decBool f))
  | "IndexedIntentions", [f, xs] => do some (.intentions (← (splitL "," xs).mapM decIxn) (← decBool f))
  | "IntentionQueryMatch", [xs] => do some (.ixnMatch (← (splitL "," xs).mapM decS))
  | "IndexedNodeDump", [f, d, i] => do
      some (.nodeDump (← (splitL "," d).mapM decNodeInfo) (← (splitL "," i).mapM decNodeInfo) (← decBool f))
  | "IndexedServiceDump", [f, xs] => do some (.serviceDump (← (splitL "," xs).mapM decSvcInfo) (← decBool f))
  | "IndexedNodes", [f, xs] => do some (.nodes (← (splitL "," xs).mapM decNodeEnt) (← decBool f))
  | "IndexedNodeServices", [f, "~"] => do some (.nodeServices none (← decBool f))
  | "IndexedNodeServices", [f, n, m] => do
      let m ← (splitL "," m).mapM decNS
      if nodupKeys m then some (.nodeServices (some (← decS n, m)) (← decBool f)) else none
  | "IndexedNodeServiceList", [f, n, xs] => do
      some (.nodeServiceList (← decOptS n) (← (splitL "," xs).mapM (decSub ";")) (← decBool f))
  | "IndexedServiceNodes", [f, xs] => do some (.serviceNodes (← (splitL "," xs).mapM decSvcEnt) (← decBool f))
  | "IndexedServices", [f, m] => do
      let m ← (splitL "," m).mapM decKeyed
      if nodupKeys m then some (.services m (← decBool f)) else none
  | "IndexedSessions", [f, xs] => do some (.sessions (← (splitL "," xs).mapM decNodeEnt) (← decBool f))
  | "IndexedPreparedQueries", [f, xs] => do some (.preparedQueries (← (splitL "," xs).mapM decPQ) (← decBool f))
  | "PtrPreparedQuery", [q] => do some (.preparedQuery (← decPQ q))
  | "IndexedServiceList", [f, xs] => do some (.serviceList (← (splitL "," xs).mapM decS) (← decBool f))
  | "IndexedExportedServiceList", [f, m] => do
      let m ← (splitL "," m).mapM (decMapEntry fun v => (splitL "|" v).mapM decS)
      if nodupKeys m then some (.exportedServiceList m (← decBool f)) else none
  | "IndexedGatewayServices", [f, xs] => do some (.gatewayServices (← (splitL "," xs).mapM decGw) (← decBool f))
  | "IndexedNodesWithGateways", [f, ns, gs, is] => do
      some (.nodesWithGateways (← decCSNs "," ";" ns) (← (splitL "," gs).mapM decGw) (← decCSNs "," ";" is) (← decBool f))
  | "DirEntries", [xs] => do some (.dirEntries (← (splitL "," xs).mapM decKeyed))
  | "TxnResults", [xs] => do some (.txnResults (← (splitL "," xs).mapM decTxn))
  | ty, [xs] =>
      match aclKindOf ty with
      | some (k, true) => do some (.aclList k (← (splitL "," xs).mapM decAcl))
      | some (k, false) => do some (.aclOne k (← decAcl xs))
      | none => none
  | _, _ => none

def encResp : Resp → String
  | .csns xs => encCSNs "," ";" xs
  | .indexedCSNs xs f => s!"{encBool f} {encCSNs "," ";" xs}"
  | .pqExecute xs f => s!"{encBool f} {encCSNs "," ";" xs}"
  | .topology none fb f => s!"{encBool fb} {encBool f} ~"
  | .topology (some (u, d)) fb f => s!"{encBool fb} {encBool f} {encCSNs "," ";" u} {encCSNs "," ";" d}"
  | .dcCSNs m f => s!"{encBool f} {joinL "," (m.map fun e => s!"{encS e.1};{encCSNs "|" "+" e.2}")}"
  | .coordinates xs f => s!"{encBool f} {joinL "," (xs.map encNodeEnt)}"
  | .healthChecks xs f => s!"{encBool f} {joinL "," (xs.map encSvcEnt)}"
  | .intentions xs f => s!"{encBool f} {joinL "," (xs.map encIxn)}"
  | .ixnMatch es => joinL "," (es.map encS)
  | .nodeDump d i f => s!"{encBool f} {joinL "," (d.map encNodeInfo)} {joinL "," (i.map encNodeInfo)}"
  | .serviceDump xs f => s!"{encBool f} {joinL "," (xs.map encSvcInfo)}"
  | .nodes xs f => s!"{encBool f} {joinL "," (xs.map encNodeEnt)}"
  | .nodeServices none f => s!"{encBool f} ~"
  | .nodeServices (some (n, m)) f => s!"{encBool f} {encS n} {joinL "," (m.map encNS)}"
  | .nodeServiceList n xs f => s!"{encBool f} {encOptS n} {joinL "," (xs.map (encSub ";"))}"
  | .serviceNodes xs f => s!"{encBool f} {joinL "," (xs.map encSvcEnt)}"
  | .services m f => s!"{encBool f} {joinL "," (m.map encKeyed)}"
  | .sessions xs f => s!"{encBool f} {joinL "," (xs.map encNodeEnt)}"
  | .preparedQueries xs f => s!"{encBool f} {joinL "," (xs.map encPQ)}"
  | .preparedQuery q => encPQ q
  | .aclList _ xs => joinL "," (xs.map encAcl)
  | .aclOne _ x => encAcl x
  | .serviceList xs f => s!"{encBool f} {joinL "," (xs.map encS)}"
  | .exportedServiceList m f => s!"{encBool f} {joinL "," (m.map fun e => s!"{encS e.1};{joinL "|" (e.2.map encS)}")}"
  | .gatewayServices xs f => s!"{encBool f} {joinL "," (xs.map encGw)}"
  | .nodesWithGateways ns gs is f =>
      s!"{encBool f} {encCSNs "," ";" ns} {joinL "," (gs.map encGw)} {encCSNs "," ";" is}"
  | .dirEntries xs => joinL "," (xs.map encKeyed)
  | .txnResults xs => joinL "," (xs.map encTxn)

/-! ### expiry -/
open CV.Filter.Expiry in
structure XState where
  server : Bool
  cfg    : Cfg
  store  : List Token
  cache  : Cache
  env    : Env := ⟨true, false, "", ""⟩

open CV.Filter.Expiry

def anonAccessor : String := "00000000-0000-0000-0000-000000000002"
def anonSecret : String := anonymousSecret

/-- What the tokens of the harness grant (its convention, see expiry.go): link 1 = one policy with
    `service "<g>" { policy = "write" }` per grant and nothing else; link 0 / 2 = service identities (on
    the token / on its role), whose synthetic policy adds `service_prefix "" read` and `node_prefix "" read`
    (a token without grants has no policy at all).
    Default policy deny, no `acl` rule. -/
def tokenAuthz (t : Token) : Authz :=
  { nodeRead := fun _ => t.link != 1 && !t.grants.isEmpty,
    serviceRead := fun s => if t.link == 1 then t.grants.contains s else !t.grants.isEmpty,
    sessionRead := fun _ => false, keyRead := fun _ => false, intentionRead := fun _ => false,
    queryRead := fun _ => false, aclRead := false, aclWrite := false }

def encResolved : Resolved → String
  | .aclsDisabled => "manage-all"
  | .rootDenied => "root-denied"
  | .agentRecovery => "recovery"
  | .serverManagement => "server-mgmt"
  | .token o => encOutcome2' o
where encOutcome2' : Outcome2 → String
  | .granted t => s!"granted {encS t.accessor} {joinL "," (t.grants.map encS)}"
  | .notFound => "notfound"
  | .down b => s!"down {encBool b}"
  | .denied => "denied"
  | .noScript => "bad-op"

def decDown : String → Option Down
  | "allow" => some .allow | "deny" => some .deny
  | "extend-cache" => some .extendCache | "async-cache" => some .asyncCache
  | _ => none

def decExp (t : String) : Option (Option Nat) := if t == "~" then some none else t.toNat?.map some

def decToken (s a e g l : String) (gsep : String := ",") : Option Token := do
  let l ← l.toNat?
  if l > 2 then none else some ⟨← decS s, ← decS a, ← decExp e, ← (splitL gsep g).mapM decS, l⟩

def decLinkAns : String → Option LinkAns
  | "ok" => some .ok | "notfound" => some .notFound | "denied" => some .permDenied | "error" => some .error
  | _ => none

def decRound (tok : String) : Option Round :=
  match tok.splitOn ";" with
  | ["found", s, a, e, g, l, la] => do some ⟨.found (← decToken s a e g l "|"), ← decLinkAns la⟩
  | ["foreign", la] => do some ⟨.foreignLocal, ← decLinkAns la⟩
  | ["notfound", la] => do some ⟨.notFound, ← decLinkAns la⟩
  | ["error", la] => do some ⟨.error, ← decLinkAns la⟩
  | _ => none

def decEp : String → Option EntryPoint
  | "t" => some .token | "p" => some .policies | "r" => some .roles
  | _ => none

def decRpc : List String → Option Rpc
  | ["found", s, a, e, g, l] => (decToken s a e g l).map .found
  | ["foreign"] => some .foreignLocal
  | ["notfound"] => some .notFound
  | ["error"] => some .error
  | _ => none

def backendOf (st : XState) (rpc : List String) : Option Backend :=
  if st.server then (if rpc.isEmpty then some (.server st.store) else none)
  else (decRpc rpc).map .remote

def encOutcome2 : Outcome2 → String
  | .granted t => s!"granted {encS t.accessor} {joinL "," (t.grants.map encS)}"
  | .notFound => "notfound"
  | .down b => s!"down {encBool b}"
  | .denied => "denied"
  | .noScript => "bad-op"

def insertStr (x : String) : List String → List String
  | [] => [x]
  | y :: ys => if x < y then x :: y :: ys else y :: insertStr x ys
def sortStrs (l : List String) : List String := l.foldr insertStr []

def encLoopRes : LoopRes → String
  | .ok t => s!"ok {encS t.accessor}"
  | .notFound => "notfound"
  | .remoteErr => "remote"
  | .denied => "denied"
  | .noScript => "bad-op"

/-- server mode: the rounds carry no outside input -/
def dummyScript : List Round := List.replicate maxRetries ⟨.notFound, .ok⟩

abbrev State := Option XState

def step (st : State) (toks : List String) : State × String :=
  match toks with
  | "f" :: ty :: tbl :: r :: w :: args =>
    match (splitL "," tbl).mapM parsePerm, decBool r, decBool w, parseResp ty args with
    | some tbl, some r, some w, some resp =>
      if !covered tbl args then (st, "bad-op")
      else match filterResp (mkAuthz tbl r w) resp with
        | some out => (st, encResp out)
        | none => (st, "panic")
    | _, _, _, _ => (st, "bad-op")
  | ["x-begin", mode, ttl, down] =>
    match decBool mode, ttl.toNat?, decDown down with
    | some m, some ttl, some d => (some { server := m, cfg := ⟨ttl, d⟩, store := [], cache := [] }, "ok")
    | _, _, _ => (st, "bad-op")
  | ["x-put", s, a, e, g, l] =>
    match st, decToken s a e g l with
    | some x, some t => (some { x with store := t :: x.store.filter fun u => u.secret ≠ t.secret }, "ok")
    | _, _ => (st, "bad-op")
  | ["x-del", s] =>
    match st, decS s with
    | some x, some s => (some { x with store := x.store.filter fun u => u.secret ≠ s }, "ok")
    | _, _ => (st, "bad-op")
  | "x-res" :: now :: ep :: s :: rounds =>
    match st, now.toNat?, decEp ep, decS s, rounds.mapM decRound with
    | some x, some now, some ep, some s, some rounds =>
      if x.server && !rounds.isEmpty then (st, "bad-op")
      else
        let store := if x.server then some x.store else none
        let script := if x.server then dummyScript else rounds
        match ep with
        | .token =>
          let (c, o) := resolveTokenEntry x.env x.cfg store x.cache script s now
          (some { x with cache := c }, encResolved o)
        | ep =>
          let (c, o) := resolveLoop x.cfg ep store maxRetries x.cache script s now
          (some { x with cache := c }, encLoopRes o)
    | _, _, _, _, _ => (st, "bad-op")
  | ["x-env", a, ts, rec, mg] =>
    match st, decBool a, decBool ts, decS rec, decS mg with
    | some x, some a, some ts, some rec, some mg => (some { x with env := ⟨a, ts, rec, mg⟩ }, "ok")
    | _, _, _, _, _ => (st, "bad-op")
  | ["x-exp", e, asOf] =>
    match decExp e, asOf.toNat? with
    | some e, some asOf =>
      let t : Token := ⟨"", "", e, [], 0⟩
      (st, s!"{encBool t.hasExpirationTime} {encBool (t.isExpired asOf)}")
    | _, _ => (st, "bad-op")
  | "x-filt" :: now :: s :: n :: rest =>
    match st, now.toNat?, decS s, n.toNat? with
    | some x, some now, some s, some n =>
      match (rest.take n).mapM decRound, rest.drop n with
      | some rounds, ty :: args =>
        if rounds.length != n || (x.server && n != 0) then (st, "bad-op")
        else match parseResp ty args with
          | none => (st, "bad-op")
          | some subj =>
            let store := if x.server then some x.store else none
            let script := if x.server then dummyScript else rounds
            match filterACL tokenAuthz x.env x.cfg store x.cache script s now subj with
            | (c, .ok out) => (some { x with cache := c }, s!"ok {encResp out}")
            | (c, .panic) => (some { x with cache := c }, "panic")
            | (c, .err (.token .noScript)) => (some { x with cache := c }, "bad-op")
            | (c, .err r) => (some { x with cache := c }, s!"err {encResolved r}")
      | _, _ => (st, "bad-op")
    | _, _, _, _ => (st, "bad-op")
  | ["x-read", now, s] =>
    match st, now.toNat?, decS s with
    | some x, some now, some s =>
      match tokenRead x.store s now with
      | some t => (st, s!"found {encS t.accessor}")
      | none => (st, "notfound")
    | _, _, _ => (st, "bad-op")
  | ["x-list", now] =>
    match st, now.toNat? with
    | some x, some now => (st, joinL "," ((sortStrs ((tokenList x.store now).map (·.accessor))).map encS))
    | _, _ => (st, "bad-op")
  | ["x-reap", now, acc] =>
    match st, now.toNat?, (splitL "," acc).mapM decS with
    | some x, some now, some acc =>
      if reapOk x.store now acc then (some { x with store := reapApply x.store acc }, "ok") else (st, "bad-reap")
    | _, _, _ => (st, "bad-op")
  | "x-mask" :: now :: s :: flag :: rpc =>
    match st, now.toNat?, decS s, decBool flag with
    | some x, some now, some s, some flag =>
      match backendOf x rpc with
      | some b =>
        let (c, o) := mask x.cfg b x.cache s anonAccessor anonSecret now flag
        (some { x with cache := c }, encBool o)
      | none => (st, "bad-op")
    | _, _, _, _ => (st, "bad-op")
  | _ => (st, "bad-op")

def engine : Engine := { State := State, init := none, step := step }

end CV.Engine.C09
