/-
Line-protocol engine for C10 (conditional writes). See go/overlay/internal/verifharness/c10.

Two worlds are kept side by side: `s` is driven through the `state.Store` methods
(`CV.Cas.storeApply`), `f` through the raft command handlers of the FSM (`CV.Cas.fsmApply`).

  <w> <cmd> <raft-index> <args…>      one command, answer = canonical result
  <w> dump                            canonical projection of the whole modelled state

Strings are `CV.encS` tokens; list elements are separated by `,`, fields of an element by `;`.
-/
import CV.Cas
namespace CV.Engine.C10
open CV CV.Cas

def nat? (t : String) : Option Nat := t.toNat?

def optS (t : String) : Option (Option String) :=
  if t == "-" then some none else (decS t).map some

def parseTOp (tok : String) : Option TOp :=
  match tok.splitOn ";" with
  | ["kl", k, v, fl, se] => do pure (.kvLock (← decS k) ⟨← decS v, ← nat? fl, 0, ← decS se⟩)
  | ["ku", k, v, fl, se] => do pure (.kvUnlock (← decS k) ⟨← decS v, ← nat? fl, 0, ← decS se⟩)
  | ["kcs", k, se] => do pure (.kvCheckSession (← decS k) (← decS se))
  | ["kci", k, c] => do pure (.kvCheckIndex (← decS k) (← nat? c))
  | ["kcn", k] => do pure (.kvCheckNotExists (← decS k))
  | ["sdel", id] => do pure (.sessDelete (← decS id))
  | ["ks", k, v, fl] => do pure (.kvSet (← decS k) ⟨← decS v, ← nat? fl, 0, ""⟩)
  | ["kd", k] => do pure (.kvDelete (← decS k))
  | ["kc", k, v, fl, c] => do pure (.kvCas (← decS k) ⟨← decS v, ← nat? fl, 0, ""⟩ (← nat? c))
  | ["kdc", k, c] => do pure (.kvDeleteCas (← decS k) (← nat? c))
  | ["ns", n, a, id] => do pure (.nodeSet ⟨← decS n, ← decS id, ← decS a⟩)
  | ["nd", n, _id] => do pure (.nodeDelete (← decS n))            -- the delete verbs ignore the ID
  | ["nc", n, a, id, c] => do pure (.nodeCas ⟨← decS n, ← decS id, ← decS a⟩ (← nat? c))
  | ["ndc", n, _id, c] => do pure (.nodeDeleteCas (← decS n) (← nat? c))
  | ["ss", n, id, p] => do pure (.svcSet (← decS n) (← decS id) (← nat? p))
  | ["sd", n, id] => do pure (.svcDelete (← decS n) (← decS id))
  | ["sc", n, id, p, c] => do pure (.svcCas (← decS n) (← decS id) (← nat? p) (← nat? c))
  | ["sdc", n, id, c] => do pure (.svcDeleteCas (← decS n) (← decS id) (← nat? c))
  | ["cs", n, id, sv, o, st] => do pure (.chkSet (← decS n) (← decS id) ⟨← decS sv, ← decS o, ← decS st⟩)
  | ["cd", n, id] => do pure (.chkDelete (← decS n) (← decS id))
  | ["cc", n, id, sv, o, st, c] => do pure (.chkCas (← decS n) (← decS id) ⟨← decS sv, ← decS o, ← decS st⟩ (← nat? c))
  | ["cdc", n, id, c] => do pure (.chkDeleteCas (← decS n) (← decS id) (← nat? c))
  | _ => none

def parseRoot (tok : String) : Option RootReq :=
  match tok.splitOn ";" with
  | [id, name, a] => do pure (← decS id, ⟨← decS name, ← decBool a⟩)
  | _ => none

def parseTok (tok : String) : Option TokReq :=
  match tok.splitOn ";" with
  | [a, s, d, m] => do pure ⟨← decS a, ← decS s, ← decS d, ← nat? m⟩
  | _ => none

/-- `<cmd> <idx> args…` ↦ (raft index, command) -/
def parseCmd : List String → Option (Nat × Cmd)
  | ["kvset", i, k, v, fl] => do pure (← nat? i, .kvSet (← decS k) ⟨← decS v, ← nat? fl, 0, ""⟩)
  | ["kvlock", i, k, v, fl, se] => do pure (← nat? i, .kvLock (← decS k) ⟨← decS v, ← nat? fl, 0, ← decS se⟩)
  | ["kvunlock", i, k, v, fl, se] => do pure (← nat? i, .kvUnlock (← decS k) ⟨← decS v, ← nat? fl, 0, ← decS se⟩)
  | ["sesscreate", i, id, n, b] => do pure (← nat? i, .sessCreate (← decS id) (← decS n) (← decS b))
  | ["sessdestroy", i, id] => do pure (← nat? i, .sessDestroy (← decS id))
  | ["tokboot", i, r, t] => do pure (← nat? i, .tokBootstrap (← nat? r) (← parseTok t))
  | ["kvdel", i, k] => do pure (← nat? i, .kvDelete (← decS k))
  | ["kvcas", i, k, v, fl, c] => do pure (← nat? i, .kvCas (← decS k) ⟨← decS v, ← nat? fl, 0, ""⟩ (← nat? c))
  | ["kvdelcas", i, k, c] => do pure (← nat? i, .kvDeleteCas (← decS k) (← nat? c))
  | ["txn", i, ops] => do pure (← nat? i, .txn (← (decList ops).mapM parseTOp))
  | ["cfgset", i, kd, n, v, fl] => do pure (← nat? i, .cfgSet (← decS kd, ← decS n) ⟨← decS v, "", ← decBool fl⟩)
  | ["cfgdel", i, kd, n] => do pure (← nat? i, .cfgDelete (← decS kd, ← decS n))
  | ["cfgcas", i, kd, n, v, st, fl, c] => do
      pure (← nat? i, .cfgCas (← decS kd, ← decS n) ⟨← decS v, ← decS st, ← decBool fl⟩ (← nat? c))
  | ["cfgstcas", i, kd, n, v, st, fl, c] => do
      pure (← nat? i, .cfgStatusCas (← decS kd, ← decS n) ⟨← decS v, ← decS st, ← decBool fl⟩ (← nat? c))
  | ["cfgdelcas", i, kd, n, c] => do pure (← nat? i, .cfgDeleteCas (← decS kd, ← decS n) (← nat? c))
  | ["caset", i, p, cl] => do pure (← nat? i, .caSet ⟨← decS p, ← decS cl⟩)
  | ["cacas", i, p, cl, c] => do pure (← nat? i, .caCas ⟨← decS p, ← decS cl⟩ (← nat? c))
  | ["rootscas", i, c, rs] => do pure (← nat? i, .rootsCas (← nat? c) (← (decList rs).mapM parseRoot))
  | ["rootscfg", i, rc, rs, cc, p, cl] => do
      pure (← nat? i, .rootsAndConfig (← nat? rc) (← (decList rs).mapM parseRoot) (← nat? cc) ⟨← decS p, ← decS cl⟩)
  | ["apset", i, v] => do pure (← nat? i, .apSet (← nat? v))
  | ["apcas", i, v, c] => do pure (← nat? i, .apCas (← nat? v) (← nat? c))
  | ["fg", i, p, st, ep, es] => do pure (← nat? i, .fg (← optS p) (← optS st) (← nat? ep) (← nat? es))
  | ["tokset", i, cas, ts] => do pure (← nat? i, .tokSet (← decBool cas) (← (decList ts).mapM parseTok))
  | ["tokdel", i, accs] => do pure (← nat? i, .tokDelete (← (decList accs).mapM decS))
  | _ => none

def errName : Err → String
  | .casMismatch => "cas-mismatch" | .stale => "stale"
  | .missingNode => "missing-node" | .missingService => "missing-service"
  | .nodeNameConflict => "node-name-conflict"
  | .cfgMtls => "cfg-mtls" | .cfgGatewayClash => "cfg-gateway-clash" | .cfgGraph => "cfg-graph"
  | .rootsActive => "roots-active" | .missingRootId => "missing-root-id"
  | .fgNoStatus => "fg-no-status" | .fgNoPolicy => "fg-no-policy"
  | .tokNoSecret => "tok-no-secret" | .tokNoAccessor => "tok-no-accessor"
  | .tokSecretImmutable => "tok-secret-immutable"
  | .missingSession => "missing-session" | .invalidSession => "invalid-session"
  | .lockHeld => "lock-held" | .lockNotHeld => "lock-not-held"
  | .keyMissing => "key-missing" | .sessionMismatch => "session-mismatch"
  | .indexMismatch => "index-mismatch" | .keyExists => "key-exists"
  | .missingSessionId => "missing-session-id" | .badBehavior => "bad-behavior"
  | .bootstrapNotAllowed => "bootstrap-not-allowed" | .bootstrapInvalidReset => "bootstrap-invalid-reset"

def tresStr : TRes → String
  | .kv k fl li se c m => s!"kv;{encS k};{fl};{li};{encS se};{c};{m}"
  | .node n c m => s!"node;{encS n};{c};{m}"
  | .svc _ id c m => s!"svc;{encS id};{c};{m}"
  | .chk n id c m => s!"chk;{encS n};{encS id};{c};{m}"

def resStr : Res → String
  | .unit => "nil"
  | .ok b => "ok:" ++ encBool b
  | .err e => "err:" ++ errName e
  | .txnOk rs => "txn-ok:" ++ encList (rs.map tresStr)
  | .txnErr es => "txn-err:" ++ encList (es.map fun (n, e) => s!"{n};{errName e}")

/-- rows are printed as strings and sorted as strings (ASCII only), the Go side does the same -/
def sorted (l : List String) : String := encList (l.mergeSort (fun a b => !(decide (b < a))))

def cellStr {α : Type} (f : α → String) : Cell α → String
  | none => "-"
  | some e => s!"{f e.val};{e.create};{e.modify}"

def dumpStr (s : Cas.State) : String :=
  unwords [
    "kv=" ++ sorted (s.kvs.map fun (k, e) => s!"{encS k};{encS e.val.value};{e.val.flags};{e.val.lockIndex};{encS e.val.session};{e.create};{e.modify}"),
    "tomb=" ++ sorted (s.tombs.map fun (k, i) => s!"{encS k};{i}"),
    "node=" ++ sorted (s.nodes.map fun (_, e) => s!"{encS e.val.name};{encS e.val.id};{encS e.val.addr};{e.create};{e.modify}"),
    "svc=" ++ sorted (s.svcs.map fun (k, e) => s!"{encS k.1};{encS k.2};{e.val};{e.create};{e.modify}"),
    "chk=" ++ sorted (s.chks.map fun (k, e) =>
        s!"{encS k.1};{encS k.2};{encS e.val.svcId};{encS e.val.output};{encS e.val.status};{e.create};{e.modify}"),
    "ksn=" ++ sorted (s.ksn.map encS),
    "cfg=" ++ sorted (s.cfgs.map fun (k, e) =>
        s!"{encS k.1};{encS k.2};{encS e.val.val};{encS e.val.status};{encBool e.val.flag};{e.create};{e.modify}"),
    "cac=" ++ cellStr (fun v => s!"{encS v.provider};{encS v.cluster}") s.caConfig,
    "car=" ++ sorted (s.roots.map fun (k, e) => s!"{encS k};{encS e.val.name};{encBool e.val.active};{e.create};{e.modify}"),
    "ap=" ++ cellStr (fun (v : Nat) => toString v) s.autopilot,
    "fgp=" ++ cellStr (fun (v : String) => encS v) s.fgPolicy,
    "fgs=" ++ cellStr (fun v => s!"{encS v.digest};{v.policyIndex}") s.fgStatus,
    "tok=" ++ sorted (s.toks.map fun (k, e) => s!"{encS k};{encS e.val.secret};{encS e.val.desc};{e.create};{e.modify}"),
    "sess=" ++ sorted (s.sess.map fun (k, e) => s!"{encS k};{encS e.val.node};{encS e.val.behavior};{e.create};{e.modify}"),
    "idx=" ++ sorted (s.idx.map fun (k, v) => s!"{k};{v}")
  ]

def step (st : Cas.State × Cas.State) (toks : List String) : (Cas.State × Cas.State) × String :=
  match toks with
  | ["s", "dump"] => (st, dumpStr st.1)
  | ["f", "dump"] => (st, dumpStr st.2)
  | ["reset"] => (({}, {}), "ok")
  | "s" :: rest =>
    match parseCmd rest with
    | some (i, c) => let o := storeApply st.1 i c; ((o.state, st.2), resStr o.res)
    | none => (st, "bad-op")
  | "f" :: rest =>
    match parseCmd rest with
    | some (i, c) => let o := fsmApply st.2 i c; ((st.1, o.state), resStr o.res)
    | none => (st, "bad-op")
  | _ => (st, "bad-op")

def engine : Engine := { State := Cas.State × Cas.State, init := ({}, {}), step := step }

end CV.Engine.C10
