/- Line-protocol engine for C10 — stub, to be filled in. -/
import CV.Proto
namespace CV.Engine.C10
open CV
def step (_ : Unit) (_toks : List String) : Unit × String := ((), "bad-op")
def engine : Engine := { State := Unit, init := (), step := step }
end CV.Engine.C10
