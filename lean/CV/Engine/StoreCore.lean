/-
Line-protocol engine of the shared state-store model (CV.Store). Used by C03 and C04 (and meant to
be reused by the later store properties). See go/overlay/internal/verifharness/storex.

Operations (tokens separated by single spaces; strings as CV.encS / CV.encB tokens):
  reset
  kv <verb> <idx> <key> <val> <flags> <session> <lockidx> <modidx>
        verb ∈ set cas delete delete-cas delete-tree lock unlock
  sc <idx> <id> <node> <name> <behavior> <lockdelay> <check+check+…|->          session create
  sd <idx> <id>                                                               session destroy
  reg <idx> <node> <nodeid> <addr> <svc|-> <checks>     svc = id;name;port
        checks = comma list of node;id;status;svcid;type;sessname;output
  dereg <idx> <node> <svcid> <chkid>
  reap <idx> <upto>
  pqs <idx> <id> <session> | pqd <idx> <id>
  txn <idx> <op,op,…>   op = k;verb;key;val;flags;session;lockidx;modidx | n;verb;name;id;addr;modidx
                           | s;verb;node;id;name;port;modidx | c;verb;node;id;status;svcid;type;sessname;output;modidx
                           | x;id
  get <key> | list <prefix> | dump
Every answer is computed by the model functions the theorems of CV.Props.C03 / C04 are about.
-/
import CV.Store.Apply
namespace CV.Engine.StoreCore
open CV CV.Store

def encNat (n : Nat) : String := toString n
def semi (l : List String) : String := ";".intercalate l
def plusList (l : List String) : String := if l.isEmpty then "-" else "+".intercalate l

def showKV (e : KV) : String :=
  semi [encB e.key, e.val, encNat e.flags, encS e.session, encNat e.lockIdx, encNat e.create, encNat e.modify]
def showTomb (t : Tomb) : String := semi [encB t.key, encNat t.idx]
def showBehavior : Behavior → String | .release => "release" | .delete => "delete"
def showSess (x : Sess) : String :=
  semi [encS x.id, encS x.node, encS x.name, showBehavior x.behavior, plusList (x.checks.map encS),
        encNat x.lockDelay, encNat x.create, encNat x.modify]
def showSC (m : SessCheck) : String := semi [encS m.node, encS m.check, encS m.session]
def showNode (n : Node) : String := semi [encS n.name, encS n.id, encS n.addr, encNat n.create, encNat n.modify]
def showSvc (v : Svc) : String := semi [encS v.node, encS v.id, encS v.name, encNat v.port, encNat v.create, encNat v.modify]
def showChk (c : Chk) : String :=
  semi [encS c.node, encS c.id, encS c.status, encS c.svcId, encS c.svcName, encS c.typ, encS c.sessName,
        encS c.output, encNat c.create, encNat c.modify]
def showPQ (q : PQ) : String := semi [encS q.id, encS q.session, encNat q.create, encNat q.modify]
def showIdx (r : String × Nat) : String := semi [encS r.1, encNat r.2]

/-- canonical dump of the whole model state (tables in fixed order, rows in primary-index order) -/
def dump (s : Store.State) : String :=
  unwords [
    "kvs=" ++ encList (s.kvs.map showKV),
    "tombs=" ++ encList (s.tombs.map showTomb),
    "sessions=" ++ encList (s.sessions.map showSess),
    "schecks=" ++ encList (s.sessChecks.map showSC),
    "nodes=" ++ encList (s.nodes.map showNode),
    "svcs=" ++ encList (s.svcs.map showSvc),
    "chks=" ++ encList (s.chks.map showChk),
    "pq=" ++ encList (s.queries.map showPQ),
    "index=" ++ encList (s.index.map showIdx),
    "delays=" ++ encList (s.loc.delayKeys.map encB)]

def showTxnRes : TxnRes → String
  | .kv e v => "k:" ++ semi ([encB e.key, encNat e.flags, encS e.session, encNat e.lockIdx, encNat e.create,
                              encNat e.modify] ++ (if v && e.val != "=" then [e.val] else []))
  | .node n => "n:" ++ showNode n
  | .service v => "s:" ++ semi [encS v.id, encS v.name, encNat v.port, encNat v.create, encNat v.modify]
  | .check c => "c:" ++ semi [encS c.id, encS c.status, encS c.svcId, encS c.svcName, encNat c.create, encNat c.modify]

def showResult : Result → String
  | .ok => "ok"
  | .bool b => if b then "true" else "false"
  | .err e => "err:" ++ e.name
  | .txn rs [] => "ok:" ++ encList (rs.map showTxnRes)
  | .txn _ es => "errs:" ++ encList (es.map fun (i, e) => encNat i ++ ":" ++ e.name)

/-! ### parsing -/

def parseKV (key val flags session lockidx modidx : String) : Option KV := do
  let k ← decB key
  let _ ← decB val
  let f ← flags.toNat?
  let se ← decS session
  let li ← lockidx.toNat?
  let mi ← modidx.toNat?
  pure ⟨k, val, f, se, li, 0, mi⟩

def parsePlus (t : String) : Option (List String) :=
  if t == "-" then some [] else (t.splitOn "+").mapM decS

def parseChk (t : String) : Option Chk :=
  match t.splitOn ";" with
  | [node, id, status, svcid, typ, sessname, output] => do
    pure ⟨← decS node, ← decS id, ← decS status, ← decS svcid, "", ← decS typ, ← decS sessname, ← decS output, 0, 0⟩
  | _ => none

def parseSvc (node : String) (t : String) : Option (Option Svc) :=
  if t == "-" then some none else
  match t.splitOn ";" with
  | [id, name, port] => do pure (some ⟨node, ← decS id, ← decS name, ← port.toNat?, 0, 0⟩)
  | _ => none

def parseKvVerb : String → Option KvVerb
  | "set" => some .set | "delete" => some .delete | "delete-cas" => some .deleteCas
  | "delete-tree" => some .deleteTree | "cas" => some .cas | "lock" => some .lock | "unlock" => some .unlock
  | "get" => some .get | "get-or-empty" => some .getOrEmpty | "get-tree" => some .getTree
  | "check-session" => some .checkSession | "check-index" => some .checkIndex
  | "check-not-exists" => some .checkNotExists | _ => none

def parseCatVerb : String → Option CatVerb
  | "get" => some .get | "set" => some .set | "cas" => some .cas | "delete" => some .delete
  | "delete-cas" => some .deleteCas | _ => none

def parseTxnOp (t : String) : Option TxnOp :=
  match t.splitOn ";" with
  | ["k", verb, key, val, flags, session, lockidx, modidx] => do
    pure (.kv (← parseKvVerb verb) (← parseKV key val flags session lockidx modidx))
  | ["n", verb, name, id, addr, modidx] => do
    pure (.node (← parseCatVerb verb) ⟨← decS name, ← decS id, ← decS addr, 0, ← modidx.toNat?⟩)
  | ["s", verb, node, id, name, port, modidx] => do
    pure (.service (← parseCatVerb verb) ⟨← decS node, ← decS id, ← decS name, ← port.toNat?, 0, ← modidx.toNat?⟩)
  | ["c", verb, node, id, status, svcid, typ, sessname, output, modidx] => do
    pure (.check (← parseCatVerb verb)
      ⟨← decS node, ← decS id, ← decS status, ← decS svcid, "", ← decS typ, ← decS sessname, ← decS output, 0, ← modidx.toNat?⟩)
  | ["x", id] => do pure (.sessionDelete (← decS id))
  | _ => none

/-- parse a write command: (raft index, command) -/
def parseCmd : List String → Option (Nat × Cmd)
  | ["kv", verb, idx, key, val, flags, session, lockidx, modidx] => do
    let i ← idx.toNat?
    let e ← parseKV key val flags session lockidx modidx
    match verb with
    | "set" => pure (i, .kvSet e)
    | "cas" => pure (i, .kvCas e)
    | "delete" => pure (i, .kvDelete e.key)
    | "delete-cas" => pure (i, .kvDeleteCas e.key e.modify)
    | "delete-tree" => pure (i, .kvDeleteTree e.key)
    | "lock" => pure (i, .kvLock e)
    | "unlock" => pure (i, .kvUnlock e)
    | _ => none
  | ["sc", idx, id, node, name, behavior, lockdelay, checks] => do
    pure (← idx.toNat?, .sessionCreate ⟨← decS id, ← decS node, ← decS name, ← decS behavior, ← parsePlus checks, ← lockdelay.toNat?⟩)
  | ["sd", idx, id] => do pure (← idx.toNat?, .sessionDestroy (← decS id))
  | ["reg", idx, node, nodeid, addr, svc, checks] => do
    let n ← decS node
    pure (← idx.toNat?, .register ⟨⟨n, ← decS nodeid, ← decS addr, 0, 0⟩, ← parseSvc n svc, ← (decList checks).mapM parseChk⟩)
  | ["dereg", idx, node, svcid, chkid] => do
    pure (← idx.toNat?, .deregister (← decS node) (← decS svcid) (← decS chkid))
  | ["reap", idx, upto] => do pure (← idx.toNat?, .reap (← upto.toNat?))
  | ["pqs", idx, id, session] => do pure (← idx.toNat?, .pqSet (← decS id) (← decS session))
  | ["pqd", idx, id] => do pure (← idx.toNat?, .pqDelete (← decS id))
  | ["txn", idx, ops] => do pure (← idx.toNat?, .txn (← (decList ops).mapM parseTxnOp))
  | _ => none

def step (s : Store.State) (toks : List String) : Store.State × String :=
  match toks with
  | ["reset"] => (Store.State.empty, "ok")
  | ["dump"] => (s, dump s)
  | ["get", key] =>
    match decB key with
    | some k =>
      match kvGet s k with
      | .ok (i, some e) => (s, s!"idx={i} {showKV e}")
      | .ok (i, none) => (s, s!"idx={i} -")
      | .error e => (s, "err:" ++ e.name)
    | none => (s, "bad-op")
  | ["list", pfx] =>
    match decB pfx with
    | some p => let (i, es) := kvList s p; (s, s!"idx={i} {encList (es.map showKV)}")
    | none => (s, "bad-op")
  | _ =>
    match parseCmd toks with
    | some (i, c) => let (s', r) := apply s i c; (s', showResult r)
    | none => (s, "bad-op")

def engine : Engine := { State := Store.State, init := Store.State.empty, step := step }

end CV.Engine.StoreCore
