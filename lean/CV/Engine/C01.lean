/-
Line-protocol engine for C01 (FSM dispatch layer). See go/overlay/internal/verifharness/c01.

Every answer is computed by `CV.Fsm.dispatch` / `CV.Fsm.run` (the functions the theorems of
`CV/Props/C01.lean` are about) over `CV.Fsm.Consul.table`, the dispatch table built from the
regenerated facts. Ops:

  tbl                         → `<byte>:<handler>,…` sorted by byte (the registered dispatch table)
  ap <ced> <entry>            → outcome of one `(*FSM).Apply`
  hist <ced> <entry>,…        → `n=<outcomes> crashed=<0|1> out=<outcome>,…` of replaying a whole log
  cov <type name>,…           → `ok` or `missing=<registered types the run never generated>`
  fam                         → `concrete=<types>,… opaque=<types>,…`: the message types whose handler is a
                                concrete model in `replicas_agree_consul_families` / still a hypothesis

`<ced>` = structs.CEDowngrade (0|1). `<entry>` = `e` (empty log data) or `<first byte>:<hp>` where
`<hp>`=1 iff the real handler panicked on the payload (oracle: the decode layer is not modelled).
Outcomes: `h:<slot>:<handler>`, `hp:<slot>` (handler panicked), `ign`, `panic`, `panic-empty`.

Every other operation is handed to the shared store engine (`CV/Engine/StoreCore.lean`: reset, kv,
sc, sd, reg, dereg, reap, pqs, pqd, txn, dump, …): the C01 harness also replays histories of the
modelled command families through `CV.Store.apply` — the functions `replicas_agree_store` and
`rejected_leaves_state` are about — and compares every result and every full dump (lock-delay keys
included) with the real FSM.
-/
import CV.Proto
import CV.Fsm
import CV.FsmFacts
import CV.Engine.StoreCore
import CV.FsmFamilies
import CV.FsmKeyed
import CV.FsmKeyedFamilies
namespace CV.Engine.C01
open CV CV.Fsm

def parseEntry (tok : String) : Option Bytes :=
  if tok == "e" then some []
  else match tok.splitOn ":" with
    | [b, hp] => do
        let b0 ← b.toNat?
        let o ← decBool hp
        if b0 < 256 then pure [b0, if o then 1 else 0] else none
    | _ => none

def showOutcome : Outcome String → String
  | .handled slot name => s!"h:{slot}:{name}"
  | .ignored => "ign"
  | .panicUnknown => "panic"
  | .panicHandler slot => s!"hp:{slot}"
  | .panicEmpty => "panic-empty"

def insertSorted (x : Nat × String) : List (Nat × String) → List (Nat × String)
  | [] => [x]
  | y :: ys => if x.1 ≤ y.1 then x :: y :: ys else y :: insertSorted x ys

def tblLine : String :=
  let rows := (Consul.slotTable.map fun (b, _, h) => (b, h)).foldr insertSorted []
  encList (rows.map fun (b, h) => s!"{b}:{h}")

/-- the dispatch-layer operations; `none` = not one of them -/
def dispatchStep (toks : List String) : Option String :=
  match toks with
  | ["tbl"] => some tblLine
  | ["ap", ced, e] =>
    match decBool ced, parseEntry e with
    | some ced, some buf => some (showOutcome (dispatch Consul.table ced () () 0 buf).2)
    | _, _ => some "bad-op"
  | ["hist", ced, es] =>
    match decBool ced, (decList es).mapM parseEntry with
    | some ced, some bufs =>
      let log := bufs.zipIdx.map fun (b, i) => (i + 1, b)
      let t := run Consul.table ced (fun _ => ()) () log
      some s!"n={t.results.length} crashed={encBool t.crashed} out={encList (t.results.map showOutcome)}"
    | _, _ => some "bad-op"
  | ["fam"] =>
    some s!"concrete={encList (Families.concreteTypes ++ KeyedFamilies.keyedTypes)} opaque={encList KeyedFamilies.opaqueTypes}"
  | ["cov", seen] =>
    let miss := Consul.missingTypes (decList seen)
    some (if miss.isEmpty then "ok" else s!"missing={encList miss}")
  | _ => none

/-! ### the keyed-table families (`CV.Keyed.apply`): `k…` operations

  kreset                                   → `ok`
  kpset <idx> <policy>,…                   policy = id|name|body|rulesBuiltin|hasDCs
  kpdel <idx> <id>,…
  krset <idx> <allowMissing> <role>,…      role = id|name|body|links|svc|nodes|tps
                                           (links, nodes, tps: `;`-separated `a+b` pairs; svc: `;`-separated; `-` = empty)
  krdel <idx> <id>,…
  kbset <idx> <rule>,…                     rule = id|method|body
  kbdel <idx> <id>,…
  kmset <idx> <method>,…                   method = name|type|body
  kmdel <idx> <name>,…
  kfup <idx> <dc> <body> <pmi> · kfdel <idx> <dc> · kfbogus <idx> · kleaf <idx> · kleafbogus <idx>
      → `nil` | `true` | `n:<k>` | `err:<Err>`
  kdump → `pol=… role=… rule=… meth=… fed=… idx=…` (rows in key order)
-/

def decPairs (tok : String) : Option (List (String × String)) :=
  if tok == "-" then some []
  else (tok.splitOn ";").mapM fun p =>
    match p.splitOn "+" with
    | [a, b] => do pure ((← decS a), (← decS b))
    | _ => none

def decStrs (tok : String) : Option (List String) :=
  if tok == "-" then some [] else (tok.splitOn ";").mapM decS

def decItems {α : Type} (f : List String → Option α) (tok : String) : Option (List α) :=
  (decList tok).mapM fun it => f (it.splitOn "|")

def decPolicy : List String → Option Keyed.PolicyReq
  | [i, n, b, rb, dc] => do pure ⟨← decS i, ← decS n, ← decS b, ← decBool rb, ← decBool dc⟩
  | _ => none
def decRole : List String → Option Keyed.RoleReq
  | [i, n, b, l, sv, nd, tp] => do
      pure ⟨← decS i, ← decS n, ← decS b, ← decPairs l, ← decStrs sv, ← decPairs nd, ← decPairs tp⟩
  | _ => none
def decRule : List String → Option Keyed.RuleReq
  | [i, m, b] => do pure ⟨← decS i, ← decS m, ← decS b⟩
  | _ => none
def decMethod : List String → Option Keyed.MethodReq
  | [n, t, b] => do pure ⟨← decS n, ← decS t, ← decS b⟩
  | _ => none

def showKErr (e : Keyed.Err) : String := (reprStr e).replace "CV.Keyed.Err." ""

def showKRes : Keyed.Res → String
  | .nil => "nil"
  | .true_ => "true"
  | .num n => s!"n:{n}"
  | .err e => s!"err:{showKErr e}"

def insertByKey {α : Type} (key : α → String) (x : α) : List α → List α
  | [] => [x]
  | y :: ys => if key x ≤ key y then x :: y :: ys else y :: insertByKey key x ys

def sortByKey {α : Type} (key : α → String) (l : List α) : List α := l.foldr (insertByKey key) []

def encPairs (l : List (String × String)) : String :=
  if l.isEmpty then "-" else ";".intercalate (l.map fun (a, b) => encS a ++ "+" ++ encS b)

def kdump (s : Keyed.State) : String :=
  let pol := (sortByKey Keyed.Policy.key s.policies).map fun r => s!"{encS r.id}|{encS r.name}|{encS r.body}|{r.create}|{r.modify}"
  let role := (sortByKey Keyed.Role.key s.roles).map fun r => s!"{encS r.id}|{encS r.name}|{encS r.body}|{encPairs r.links}|{r.create}|{r.modify}"
  let rule := (sortByKey Keyed.Rule.key s.rules).map fun r => s!"{encS r.id}|{encS r.method}|{encS r.body}|{r.create}|{r.modify}"
  let meth := (sortByKey Keyed.Method.key s.methods).map fun r => s!"{encS r.name}|{encS r.type}|{encS r.body}|{r.create}|{r.modify}"
  let fed := (sortByKey Keyed.Fed.key s.feds).map fun r => s!"{encS r.dc}|{encS r.body}|{r.pmi}|{r.create}|{r.modify}"
  let idx := (sortByKey (fun (x : String × Nat) => x.1) s.index).map fun (t, v) => s!"{t}:{v}"
  s!"pol={encList pol} role={encList role} rule={encList rule} meth={encList meth} fed={encList fed} idx={encList idx}"

def kcmd (toks : List String) : Option (Nat × Keyed.Cmd) :=
  match toks with
  | ["kpset", i, items] => do pure (← i.toNat?, .policySet (← decItems decPolicy items))
  | ["kpdel", i, ids] => do pure (← i.toNat?, .policyDelete (← (decList ids).mapM decS))
  | ["krset", i, am, items] => do pure (← i.toNat?, .roleSet (← decItems decRole items) (← decBool am))
  | ["krdel", i, ids] => do pure (← i.toNat?, .roleDelete (← (decList ids).mapM decS))
  | ["kbset", i, items] => do pure (← i.toNat?, .ruleSet (← decItems decRule items))
  | ["kbdel", i, ids] => do pure (← i.toNat?, .ruleDelete (← (decList ids).mapM decS))
  | ["kmset", i, items] => do pure (← i.toNat?, .methodSet (← decItems decMethod items))
  | ["kmdel", i, ns] => do pure (← i.toNat?, .methodDelete (← (decList ns).mapM decS))
  | ["kfup", i, dc, b, pmi] => do pure (← i.toNat?, .fedUpsert ⟨← decS dc, ← decS b, ← pmi.toNat?⟩)
  | ["kfdel", i, dc] => do pure (← i.toNat?, .fedDelete (← decS dc))
  | ["kfbogus", i] => do pure (← i.toNat?, .fedBogus)
  | ["kleaf", i] => do pure (← i.toNat?, .leafIncrement)
  | ["kleafbogus", i] => do pure (← i.toNat?, .leafBogus)
  | _ => none

def isKeyedOp (op : String) : Bool :=
  op ∈ ["kpset", "kpdel", "krset", "krdel", "kbset", "kbdel", "kmset", "kmdel", "kfup", "kfdel", "kfbogus", "kleaf", "kleafbogus"]

def keyedStep (k : Keyed.State) (toks : List String) : Option (Keyed.State × String) :=
  match toks with
  | ["kreset"] => some ({}, "ok")
  | ["kdump"] => some (k, kdump k)
  | op :: _ =>
    if isKeyedOp op then
      match kcmd toks with
      | some (idx, c) => let r := Keyed.apply k idx c; some (r.1, showKRes r.2)
      | none => some (k, "bad-op")
    else none
  | [] => none

abbrev EState := Store.State × Keyed.State

def step (s : EState) (toks : List String) : EState × String :=
  match dispatchStep toks with
  | some out => (s, out)
  | none =>
    match keyedStep s.2 toks with
    | some (k, out) => ((s.1, k), out)
    | none => let r := StoreCore.step s.1 toks; ((r.1, s.2), r.2)

def engine : Engine := { State := EState, init := (Store.State.empty, {}), step := step }
end CV.Engine.C01
