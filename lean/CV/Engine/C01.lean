/-
Line-protocol engine for C01 (FSM dispatch layer). See go/overlay/internal/verifharness/c01.

Every answer is computed by `CV.Fsm.dispatch` / `CV.Fsm.run` (the functions the theorems of
`CV/Props/C01.lean` are about) over `CV.Fsm.Consul.table`, the dispatch table built from the
regenerated facts. Ops:

  tbl                         → `<byte>:<handler>,…` sorted by byte (the registered dispatch table)
  ap <ced> <entry>            → outcome of one `(*FSM).Apply`
  hist <ced> <entry>,…        → `n=<outcomes> crashed=<0|1> out=<outcome>,…` of replaying a whole log
  cov <type name>,…           → `ok` or `missing=<registered types the run never generated>`
  fam                         → `concrete=<types>,… opaque=<types>,…`: the message types whose handler is a
                                concrete model in `replicas_agree_consul_families` / still a hypothesis

`<ced>` = structs.CEDowngrade (0|1). `<entry>` = `e` (empty log data) or `<first byte>:<hp>` where
`<hp>`=1 iff the real handler panicked on the payload (oracle: the decode layer is not modelled).
Outcomes: `h:<slot>:<handler>`, `hp:<slot>` (handler panicked), `ign`, `panic`, `panic-empty`.

Every other operation is handed to the shared store engine (`CV/Engine/StoreCore.lean`: reset, kv,
sc, sd, reg, dereg, reap, pqs, pqd, txn, dump, …): the C01 harness also replays histories of the
modelled command families through `CV.Store.apply` — the functions `replicas_agree_store` and
`rejected_leaves_state` are about — and compares every result and every full dump (lock-delay keys
included) with the real FSM.
-/
import CV.Proto
import CV.Fsm
import CV.FsmFacts
import CV.Engine.StoreCore
import CV.FsmFamilies
namespace CV.Engine.C01
open CV CV.Fsm

def parseEntry (tok : String) : Option Bytes :=
  if tok == "e" then some []
  else match tok.splitOn ":" with
    | [b, hp] => do
        let b0 ← b.toNat?
        let o ← decBool hp
        if b0 < 256 then pure [b0, if o then 1 else 0] else none
    | _ => none

def showOutcome : Outcome String → String
  | .handled slot name => s!"h:{slot}:{name}"
  | .ignored => "ign"
  | .panicUnknown => "panic"
  | .panicHandler slot => s!"hp:{slot}"
  | .panicEmpty => "panic-empty"

def insertSorted (x : Nat × String) : List (Nat × String) → List (Nat × String)
  | [] => [x]
  | y :: ys => if x.1 ≤ y.1 then x :: y :: ys else y :: insertSorted x ys

def tblLine : String :=
  let rows := (Consul.slotTable.map fun (b, _, h) => (b, h)).foldr insertSorted []
  encList (rows.map fun (b, h) => s!"{b}:{h}")

/-- the dispatch-layer operations; `none` = not one of them -/
def dispatchStep (toks : List String) : Option String :=
  match toks with
  | ["tbl"] => some tblLine
  | ["ap", ced, e] =>
    match decBool ced, parseEntry e with
    | some ced, some buf => some (showOutcome (dispatch Consul.table ced () () 0 buf).2)
    | _, _ => some "bad-op"
  | ["hist", ced, es] =>
    match decBool ced, (decList es).mapM parseEntry with
    | some ced, some bufs =>
      let log := bufs.zipIdx.map fun (b, i) => (i + 1, b)
      let t := run Consul.table ced (fun _ => ()) () log
      some s!"n={t.results.length} crashed={encBool t.crashed} out={encList (t.results.map showOutcome)}"
    | _, _ => some "bad-op"
  | ["fam"] =>
    some s!"concrete={encList Families.concreteTypes} opaque={encList Families.opaqueTypes}"
  | ["cov", seen] =>
    let miss := Consul.missingTypes (decList seen)
    some (if miss.isEmpty then "ok" else s!"missing={encList miss}")
  | _ => none

def step (s : Store.State) (toks : List String) : Store.State × String :=
  match dispatchStep toks with
  | some out => (s, out)
  | none => StoreCore.step s toks

def engine : Engine := { State := Store.State, init := Store.State.empty, step := step }
end CV.Engine.C01
