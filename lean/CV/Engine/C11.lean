/- Line-protocol engine for C11 (event streaming). See go/overlay/internal/verifharness/c11. -/
import CV.Stream
import CV.StreamSubject
namespace CV.Engine.C11
open CV CV.Stream

structure St where
  sys  : Sys
  vers : List (Nat × Cat)     -- catalog after each commit, for `restore <idx>`

def kindStr : Kind → String
  | .typical => "t"
  | .native => "n"
  | .proxy d => "p." ++ d

def entryStr (p : Id × Val) : String :=
  s!"{p.1.1}/{p.1.2}:{p.2.name}:{p.2.port}:{p.2.addr}:{kindStr p.2.kind}"

/-- canonical rendering of a view: first match per id, sorted by `node/sid` -/
def dedup : View → View
  | [] => []
  | p :: r => p :: (dedup r).filter (fun q => q.1 ≠ p.1)

def viewStr (v : View) : String :=
  let es := (dedup v).map fun p => (p.1.1 ++ "/" ++ p.1.2, entryStr p)
  let sorted := es.mergeSort (fun a b => !(b.1 < a.1))
  encList (sorted.map (·.2))

def keyUniverse : List (String × Key) :=
  [("h.web", hkey "web"), ("h.api", hkey "api"), ("h.db", hkey "db"),
   ("c.web", ckey "web"), ("c.api", ckey "api"), ("c.db", ckey "db"),
   ("g.web", ⟨.cfg, .named "web"⟩), ("g.api", ⟨.cfg, .named "api"⟩), ("g.*", ⟨.cfg, .wild⟩)]

def dumpStr (c : Cat) : String :=
  "|".intercalate (keyUniverse.map fun (n, k) => s!"{n}@{queryIdx k c}:{viewStr (query k c)}")

def parseKey (t s : String) : Option Key := do
  let topic ← (if t == "h" then some Topic.health else if t == "c" then some Topic.connect
               else if t == "g" then some Topic.cfg else none)
  if s == "*" then pure ⟨topic, .wild⟩ else
    let n ← decS s
    pure ⟨topic, .named n⟩

def parseKind (k d : String) : Option Kind :=
  if k == "t" then some .typical else if k == "n" then some .native
  else if k == "p" then (decS d).map .proxy else none

def parseAuthz (t : String) : Option Authz :=
  if t == "all" then some .all
  else if t == "none" then some .none
  else match t.splitOn ":" with
    | ["s", l] => ((decList l).mapM decS).map .svcs
    | ["n", l] => ((decList l).mapM decS).map .nodes
    | _ => none

def doCommit (s : St) (idx : Nat) (w : Write) : St × String :=
  let y := commit s.sys idx w
  ({ sys := y, vers := (idx, y.cat) :: s.vers }, s!"ok q={y.queue.length} {dumpStr y.cat}")

def stepLine (s : St) (toks : List String) : St × String :=
  match toks with
  | ["new", t] =>
      (match decBool t with
       | some b => ({ sys := Sys.init b, vers := [] }, "ok")
       | none => (s, "bad-op"))
  | ["client", id, t, sj, tok, rpc, az] =>
      (match id.toNat?, parseKey t sj, decS tok, decBool rpc, parseAuthz az with
       | some id, some k, some tok, some rpc, some az => ({ s with sys := addClient s.sys id k tok rpc az }, "ok")
       | _, _, _, _, _ => (s, "bad-op"))
  | ["reg", idx, node, addr, "-"] =>
      (match idx.toNat?, decS node, addr.toNat? with
       | some idx, some node, some addr => doCommit s idx (.reg node addr none)
       | _, _, _ => (s, "bad-op"))
  | ["reg", idx, node, addr, sid, name, port, kind, dest] =>
      (match idx.toNat?, decS node, addr.toNat?, decS sid, decS name, port.toNat?, parseKind kind dest with
       | some idx, some node, some addr, some sid, some name, some port, some kind =>
           doCommit s idx (.reg node addr (some ⟨node, sid, name, port, kind⟩))
       | _, _, _, _, _, _, _ => (s, "bad-op"))
  | ["dereg", idx, node, sid] =>
      (match idx.toNat?, decS node with
       | some idx, some node =>
           if sid == "-" then doCommit s idx (.dereg node none)
           else (match decS sid with
                 | some sid => doCommit s idx (.dereg node (some sid))
                 | none => (s, "bad-op"))
       | _, _ => (s, "bad-op"))
  | ["cfg", idx, name, val] =>
      (match idx.toNat?, decS name, val.toNat? with
       | some idx, some name, some val => doCommit s idx (.cfgSet name val)
       | _, _, _ => (s, "bad-op"))
  | ["cfgdel", idx, name] =>
      (match idx.toNat?, decS name with
       | some idx, some name => doCommit s idx (.cfgDel name)
       | _, _ => (s, "bad-op"))
  | ["tok", idx, t] =>
      (match idx.toNat?, decS t with
       | some idx, some t => doCommit s idx (.tok t)
       | _, _ => (s, "bad-op"))
  | ["kv", idx] =>
      (match idx.toNat? with
       | some idx => doCommit s idx .kv
       | none => (s, "bad-op"))
  | ["pub"] =>
      (match s.sys.queue with
       | [] => (s, "idle")
       | _ :: _ =>
           let y := publishOne s.sys
           ({ s with sys := y }, s!"pub q={y.queue.length}"))
  | ["sub", id] =>
      (match id.toNat? with
       | some id =>
           (match getClient s.sys id with
            | none => (s, "noclient")
            | some c => if attached c then (s, "busy") else ({ s with sys := subscribe s.sys id }, "ok"))
       | none => (s, "bad-op"))
  | ["next", id] =>
      (match id.toNat? with
       | some id =>
           let (y, r) := next s.sys id
           let out := match r with
             | .nosub => "nosub"
             | .block => "block"
             | .err .acl => "err:acl"
             | .err _ => "err:force"
             | .skip st =>
                 let i := match st with | .item it => it.idx | .eos i _ => i | .nstf => 0
                 -- inside a snapshot the order of the items is memdb's iteration order: not compared
                 (match (getClient y id).map (fun c => c.m.h) with
                  | some (Handler.snap _) => s!"snap i={i}"
                  | _ => s!"skip i={i}")
             | .ev st c =>
                 let i := match st with
                   | .nstf => 0
                   | .eos i _ => i
                   | .item it => it.idx
                 let kind := match st with
                   | .nstf => "nstf"
                   | .eos _ _ => "eos"
                   | .item _ => "ev"
                 if c.m.h = .bad then "herr"
                 else match st, c.m.h with
                   | Step.item _, Handler.snap _ => s!"snap i={i}"
                   | _, _ => s!"{kind} i={i} vi={c.m.index} v={viewStr c.m.view}"
           ({ s with sys := y }, out)
       | none => (s, "bad-op"))
  | ["unsub", id] =>
      (match id.toNat? with
       | some id =>
           (match getClient s.sys id with
            | none => (s, "noclient")
            | some c => if attached c then ({ s with sys := unsub s.sys id }, "ok") else (s, "nosub"))
       | none => (s, "bad-op"))
  | ["subj", svc, ov, peer] =>
      -- routing key of a published event (stateless)
      (match decS svc, decS ov, decS peer with
       | some svc, some ov, some peer => (s, encS (publisherSubj svc ov peer).str)
       | _, _, _ => (s, "bad-op"))
  | ["subsubj", name, peer] =>
      (match decS name, decS peer with
       | some name, some peer => (s, encS (subscriberSubj name peer).str)
       | _, _ => (s, "bad-op"))
  | ["route", svc, ov, name] =>
      -- does an event for (svc, override) land in the buffer a subscriber of `name` reads?
      (match decS svc, decS ov, decS name with
       | some svc, some ov, some name =>
           (s, if (publisherSubj svc ov "").str = (subscriberSubj name "").str then "same" else "diff")
       | _, _, _ => (s, "bad-op"))
  | ["cfgsubj", name] =>
      (match decS name with
       | some name => (s, encS (cfgSubj name))
       | none => (s, "bad-op"))
  | ["expire"] => ({ s with sys := expire s.sys }, s!"ok n={s.sys.cache.length}")
  | ["restore", v] =>
      (match v.toNat? with
       | some v =>
           (match lookup? v s.vers with
            | some c =>
                let y := restore s.sys c
                ({ s with sys := y }, s!"ok {dumpStr y.cat}")
            | none => (s, "bad-op"))
       | none => (s, "bad-op"))
  | _ => (s, "bad-op")

def engine : Engine := { State := St, init := ⟨Sys.init true, []⟩, step := stepLine }

end CV.Engine.C11
