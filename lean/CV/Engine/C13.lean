/- Line-protocol engine for C13 (intention precedence). See go/overlay/internal/verifharness/c13.

   reset cfg|legacy                       fresh store (config-entry mode or legacy-table mode)
   ent <dst> <srcs>                       ConfigEntry apply: Normalize, Validate, EnsureConfigEntry
   entdel <dst>                           DeleteConfigEntry
   up <dst> <src> <act> <perms>           IntentionMutation upsert
   del <dst> <src>                        IntentionMutation delete (by name)
   lcreate <dst> <src> <act> <id>         IntentionMutation create (legacy API on config entries)
   lupdate <id> <src> <act>               IntentionMutation update by legacy id
   ldelid <id>                            IntentionMutation delete by legacy id
   lset <id> <src> <dst> <act>            LegacyIntentionSet
   ldel <id>                              LegacyIntentionDelete
   match s|d <name>                       IntentionMatch
   list                                   Intentions
   check <src> <dst> <def> <ap>           source match, destination decision
   authz <peer> <src> <dst> <def> <ap>    destination match, source decision
   srcs = `-` or comma separated `peer;name;act;perms[;precedence-sent-by-the-client]`; act = a|d|n|b
   `up` takes an optional sixth token: the Precedence sent by the client
-/
import CV.Ixn
namespace CV.Engine.C13
open CV CV.Ixn

def decAct (t : String) : Option Act :=
  if t == "a" then some .allow else if t == "d" then some .deny
  else if t == "n" then some .none else if t == "b" then some .bad else none

def encAct : Act → String
  | .allow => "a" | .deny => "d" | .none => "n" | .bad => "b"

def parseSrc (tok : String) : Option Src :=
  match tok.splitOn ";" with
  | [p, n, a, k] => do
      let peer ← decB p; let name ← decB n; let act ← decAct a; let perms ← k.toNat?
      pure { peer := peer, name := name, act := act, perms := perms, prec := 0 }
  | [p, n, a, k, q] => do   -- with the `Precedence` the client sent (an exported, writable field)
      let peer ← decB p; let name ← decB n; let act ← decAct a; let perms ← k.toNat?; let prec ← q.toNat?
      pure { peer := peer, name := name, act := act, perms := perms, prec := prec }
  | _ => none

def encIxn (i : Ixn) : String :=
  s!"{encB i.peer};{encB i.src};{encB i.dst};{encAct i.act};{i.perms};{i.prec}"

def encIxns (l : List Ixn) : String := encList (l.map encIxn)

def encErr : Err → String
  | .nameRequired => "name-required" | .dstPartialWildcard => "dst-partial-wildcard"
  | .noSources => "no-sources" | .srcNameRequired => "src-name-required"
  | .srcPartialWildcard => "src-partial-wildcard" | .peerWildcard => "peer-wildcard"
  | .legacyPeer => "legacy-peer" | .legacyIdRequired => "legacy-id-required"
  | .actionInvalid => "action-invalid" | .actionWithPerms => "action-with-perms"
  | .permsOnWildDst => "perms-on-wild-dst" | .dupSource => "dup-source"
  | .legacyDisabled => "legacy-disabled" | .notConfigMode => "not-config-mode"
  | .missingId => "missing-id" | .dupLegacy => "dup-legacy"
  | .legacyEditNotAllowed => "legacy-edit-not-allowed" | .notFound => "not-found"

def res (r : Store × Option Err) : Store × String :=
  match r.2 with
  | none => (r.1, "ok")
  | some e => (r.1, "err:" ++ encErr e)

def encDecision (d : Decision) : String :=
  s!"a={encBool d.allowed} p={encBool d.hasPerms} x={encBool d.hasExact}"

def decSide (t : String) : Option Side :=
  if t == "s" then some .source else if t == "d" then some .destination else none

def step (st : Store) (toks : List String) : Store × String :=
  match toks with
  | ["reset", "cfg"] => ({ cfgMode := true }, "ok")
  | ["reset", "legacy"] => ({ cfgMode := false }, "ok")
  | ["ent", dst, srcs] =>
    match decB dst, (decList srcs).mapM parseSrc with
    | some dst, some srcs => res (applyOpE st (.ent ⟨dst, srcs⟩))
    | _, _ => (st, "bad-op")
  | ["entdel", dst] =>
    match decB dst with
    | some dst => res (applyOpE st (.entdel dst))
    | none => (st, "bad-op")
  | ["up", dst, src, act, perms] =>
    match decB dst, decB src, decAct act, perms.toNat? with
    | some dst, some src, some act, some perms =>
      res (applyOpE st (.up dst { peer := [], name := src, act := act, perms := perms, prec := 0 }))
    | _, _, _, _ => (st, "bad-op")
  | ["up", dst, src, act, perms, prec] =>
    match decB dst, decB src, decAct act, perms.toNat?, prec.toNat? with
    | some dst, some src, some act, some perms, some prec =>
      res (applyOpE st (.up dst { peer := [], name := src, act := act, perms := perms, prec := prec }))
    | _, _, _, _, _ => (st, "bad-op")
  | ["del", dst, src] =>
    match decB dst, decB src with
    | some dst, some src => res (applyOpE st (.del dst src))
    | _, _ => (st, "bad-op")
  | ["lcreate", dst, src, act, id] =>
    match decB dst, decB src, decAct act, decB id with
    | some dst, some src, some act, some id =>
      res (applyOpE st (.lcreate dst { peer := [], name := src, act := act, perms := 0, prec := 0, lid := id }))
    | _, _, _, _ => (st, "bad-op")
  | ["lupdate", id, src, act] =>
    match decB id, decB src, decAct act with
    | some id, some src, some act =>
      res (applyOpE st (.lupdate id { peer := [], name := src, act := act, perms := 0, prec := 0, lid := id }))
    | _, _, _ => (st, "bad-op")
  | ["ldelid", id] =>
    match decB id with
    | some id => res (applyOpE st (.ldelid id))
    | none => (st, "bad-op")
  | ["lset", id, src, dst, act] =>
    match decB id, decB src, decB dst, decAct act with
    | some id, some src, some dst, some act =>
      res (applyOpE st (.lset id { peer := [], src := src, dst := dst, act := act, perms := 0, prec := 0 }))
    | _, _, _, _ => (st, "bad-op")
  | ["ldel", id] =>
    match decB id with
    | some id => res (applyOpE st (.ldel id))
    | none => (st, "bad-op")
  | ["match", side, name] =>
    match decSide side, decB name with
    | some side, some name => (st, encIxns (matchList st side name))
    | _, _ => (st, "bad-op")
  | ["list"] => (st, encIxns (listAll st))
  | ["check", src, dst, da, ap] =>
    match decB src, decB dst, decBool da, decBool ap with
    | some src, some dst, some da, some ap => (st, encDecision (checkDecision st src dst da ap))
    | _, _, _, _ => (st, "bad-op")
  | ["authz", peer, src, dst, da, ap] =>
    match decB peer, decB src, decB dst, decBool da, decBool ap with
    | some peer, some src, some dst, some da, some ap =>
      (st, encDecision (authzDecision st peer src dst da ap))
    | _, _, _, _, _ => (st, "bad-op")
  | _ => (st, "bad-op")

def engine : Engine := { State := Store, init := { cfgMode := true }, step := step }

end CV.Engine.C13
