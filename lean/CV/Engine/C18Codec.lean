/- Token codecs shared by the C18 engines (storage level: CV.Engine.C18, service level: CV.Engine.C18Svc). -/
import CV.Res
namespace CV.Engine.C18
open CV CV.Res

/-! ### codecs -/

def parseID (tok : String) : Option RID :=
  match tok.splitOn ";" with
  | [g, gv, k, p, n, nm, u] => do
      let g ← decB g; let gv ← decB gv; let k ← decB k; let p ← decB p
      let n ← decB n; let nm ← decB nm; let u ← decB u
      pure ⟨⟨g, gv, k⟩, ⟨p, n⟩, nm, u⟩
  | _ => none

def encID (i : RID) : String :=
  ";".intercalate [encB i.typ.group, encB i.typ.gv, encB i.typ.kind, encB i.ten.part, encB i.ten.ns, encB i.name, encB i.uid]

def parseRes (tok : String) : Option Res :=
  match tok.splitOn "|" with
  | [i, o, v, d] => do
      let id ← parseID i
      let owner ← if o == "-" then some none else (parseID o).map some
      let v ← decS v
      let d ← d.toNat?
      pure ⟨id, owner, v, d⟩
  | _ => none

def encRes (r : Res) : String :=
  "|".intercalate [encID r.id, (match r.owner with | none => "-" | some o => encID o), encS r.version, toString r.data]

def encRows (rs : List Res) : String := encList (rs.map encRes)

def parseRows (tok : String) : Option (List Res) := (decList tok).mapM parseRes

def parseQuery (tok : String) : Option Query :=
  match tok.splitOn ";" with
  | [g, k, p, n, x] => do
      let g ← decB g; let k ← decB k; let p ← decB p; let n ← decB n; let x ← decB x
      pure ⟨g, k, p, n, x⟩
  | _ => none

def encWRes : WRes → String
  | .ok => "ok" | .cas => "cas" | .wrongUid => "wronguid"

def encRead : ReadRes → String
  | .found r => "found " ++ encRes r
  | .notFound => "notfound"
  | .gvMismatch r => "gvmismatch " ++ encRes r

def encWEv : WEv → String
  | .upsert r => "upsert " ++ encRes r
  | .delete r => "delete " ++ encRes r
  | .eos => "eos"

def encNext : NextRes → String
  | .ev e => encWEv e
  | .closed => "closed"
  | .unsubErr => "unsub"
  | .block => "none"

def parseHandle (t : String) : Option Nat :=
  if t.startsWith "h" then (t.drop 1).toString.toNat? else none

end CV.Engine.C18
