/-
Line-protocol engine for C07 (catalog integrity). See go/overlay/internal/verifharness/c07.

Operations (tokens separated by single spaces; strings as CV.encS tokens):
  reset
  reg <idx> <peer> <node> <nodeid> <addr> <svc|-> <checks>
        svc    = id;name;port;kind;native;dest;ups;weights        ups = a+b+… | -
        checks = comma list of node;id;status;svcid;type;sessname;output
  dereg <idx> <peer> <node> <svcid> <chkid>
  coord <idx> <node;segment;val,…>
  sysmeta <idx> <key> <val|!>                                     ! = delete
  cfgset <idx> <kind> <name> <dest> <tok> | cfgdel <idx> <kind> <name>
  xtxn <idx> <op,op,…>    op = the ops of StoreCore's `txn` | S;verb;node;id;name;port;kind;native;dest;ups;weights;modidx
  every write command of CV.Engine.StoreCore (kv, sc, sd, reg…, txn, …) — run on the local catalog
  dump
  xdump      gateway-services and mesh-topology (stage 2, CV.Store.GwX)
Every answer is computed by the model functions the theorems of CV.Props.C07 are about: the engine runs
`CV.Store.applyG`, whose `XState` component and answer are `CV.Store.applyX`'s (CV.Proofs.StoreGwProj.proj_applyG);
`dump` prints that component, `xdump` the two tables of stage 2.
-/
import CV.Store.GwX
import CV.Engine.StoreCore
namespace CV.Engine.C07
open CV CV.Store CV.Engine.StoreCore

def parseKind : String → Option Kind
  | "typical" => some .typical | "connect-proxy" => some .connectProxy | "mesh-gateway" => some .meshGateway
  | "terminating-gateway" => some .terminatingGateway | "ingress-gateway" => some .ingressGateway
  | "api-gateway" => some .apiGateway | _ => none

def parseSvcReq (f : List String) (modidx : String) : Option SvcReq :=
  match f with
  | [id, name, port, kind, native, dest, ups, weights] => do
    pure ⟨← decS id, ← decS name, ← port.toNat?, ← parseKind kind, ← decBool native, ← decS dest, ← parsePlus ups,
          ← decBool weights, ← modidx.toNat?⟩
  | _ => none

def parseXSvc (t : String) : Option (Option SvcReq) :=
  if t == "-" then some none else (parseSvcReq (t.splitOn ";") "0").map some

def parseCoord (t : String) : Option CoordRow :=
  match t.splitOn ";" with
  | [node, seg, val] => do pure ⟨← decS node, ← decS seg, ← val.toNat?⟩
  | _ => none

def parseXTxnOp (t : String) : Option XTxnOp :=
  match t.splitOn ";" with
  | "S" :: verb :: node :: rest =>
    match rest.reverse with
    | modidx :: fields => do pure (.service (← parseCatVerb verb) (← decS node) (← parseSvcReq fields.reverse modidx))
    | [] => none
  | _ => (parseTxnOp t).map .base

def parseXCmd : List String → Option (Nat × XCmd)
  | ["reg", idx, peer, node, nodeid, addr, svc, checks] => do
    let n ← decS node
    pure (← idx.toNat?, .register ⟨← decS peer, ⟨n, ← decS nodeid, ← decS addr, 0, 0⟩, ← parseXSvc svc,
                                   ← (decList checks).mapM parseChk⟩)
  | ["dereg", idx, peer, node, svcid, chkid] => do
    pure (← idx.toNat?, .deregister (← decS peer) (← decS node) (← decS svcid) (← decS chkid))
  | ["coord", idx, us] => do pure (← idx.toNat?, .coords (← (decList us).mapM parseCoord))
  | ["sysmeta", idx, key, val] => do
    let v ← if val == "!" then some none else (decS val).map some
    pure (← idx.toNat?, .sysmeta (← decS key) v)
  | ["cfgset", idx, kind, name, dest, tok] => do
    pure (← idx.toNat?, .configSet (← decS kind) (← decS name) (← decBool dest) (← decS tok))
  | ["cfgdel", idx, kind, name] => do pure (← idx.toNat?, .configDelete (← decS kind) (← decS name))
  | ["xtxn", idx, ops] => do pure (← idx.toNat?, .txn (← (decList ops).mapM parseXTxnOp))
  | toks => (parseCmd toks).map fun (i, c) => (i, .store c)

/-! ### canonical dump -/

def optNat : Option Nat → String
  | some n => encNat n
  | none => "-"

/-- catalogs in dump order: the local one (peer name empty), then the peers by key -/
def cats (s : XState) : List (String × Cat) := ("", s.loc) :: s.peers

def showXNode (p : String) (n : Node) : String := semi [encS p, showNode n]

def showXSvc (p : String) (r : Svc × SvcX) : String :=
  semi [encS p, encS r.1.node, encS r.1.id, encS r.1.name, encNat r.1.port, r.2.kind.name, encBool r.2.native,
        encS r.2.dest, plusList (r.2.ups.map encS), optNat r.2.vip, encNat r.1.create, encNat r.1.modify]

def showXChk (p : String) (c : Chk) : String :=
  semi [encS p, encS c.node, encS c.id, encS c.status, encS c.svcId, encS c.svcName, encNat c.create, encNat c.modify]

/-- rows of the local index table the base model maintains, minus the `service_kind.*` rows -/
def localIndexRows (ix : List (String × Nat)) : List (String × Nat) :=
  ix.filter fun r => r.1.startsWith "peer.~:" && !r.1.startsWith "peer.~:service_kind."

def dump (s : XState) : String :=
  let cs := cats s
  unwords [
    "nodes=" ++ encList (cs.flatMap fun (p, c) => c.st.nodes.map (showXNode p)),
    "svcs=" ++ encList (cs.flatMap fun (p, c) => c.rows.map (showXSvc p)),
    "nsvc=" ++ encNat ((cs.map fun (_, c) => c.st.svcs.length).sum),
    "chks=" ++ encList (cs.flatMap fun (p, c) => c.st.chks.map (showXChk p)),
    "coords=" ++ encList (s.coords.map fun c => semi [encS c.node, encS c.segment, encNat c.val]),
    "sessions=" ++ encList (s.loc.st.sessions.map fun x => semi [encS x.id, encS x.node]),
    "ksn=" ++ encList (s.kindNames.map fun r => semi [r.kind.name, encS r.name, encNat r.create, encNat r.modify]),
    "vips=" ++ encList (s.vips.map fun r => semi [encS r.peer, encS r.name, encNat r.ip, encNat r.create, encNat r.modify]),
    "free=" ++ optNat s.freeIP,
    "counter=" ++ optNat s.counter,
    "usage=" ++ encList (s.usage.map fun r => semi [encS r.id, encNat r.count, encNat r.index]),
    "cfg=" ++ encList (s.cfg.map fun r => semi [encS r.kind, encS r.name, encBool r.dest, encNat r.create, encNat r.modify]),
    "sysmeta=" ++ encList (s.sysMeta.map fun r => semi [encS r.1, encS r.2]),
    "index=" ++ encList ((localIndexRows s.loc.st.index).map showIdx)]

def showXResult : XResult → String
  | .ok => "ok"
  | .bool b => if b then "true" else "false"
  | .err e => "err:" ++ e.name
  | .txn rs [] => "ok:" ++ encList (rs.map showTxnRes)
  | .txn _ es => "errs:" ++ encList (es.map fun (i, e) => encNat i ++ ":" ++ e.name)

def xdump (g : GState) : String :=
  " ".intercalate [
    "gw=" ++ encList (g.t.gw.map fun r => semi [encS r.gateway, encS r.service, r.kind.name, encNat r.port, encS r.protocol,
      encBool r.fromWildcard, encS r.svcKind.raw, encNat r.create, encNat r.modify]),
    "topo=" ++ encList (g.t.topo.map fun r => semi [encS r.up, encS r.dn, encS (",".intercalate r.refs), encNat r.create, encNat r.modify])]

def step (g : GState) (toks : List String) : GState × String :=
  match toks with
  | ["reset"] => (GState.empty, "ok")
  | ["dump"] => (g, dump g.x)
  | ["xdump"] => (g, xdump g)
  | _ =>
    match parseXCmd toks with
    | some (i, c) => let (g', r) := applyG g i c; (g', showXResult r)
    | none => (g, "bad-op")

def engine : Engine := { State := GState, init := GState.empty, step := step }

end CV.Engine.C07
