/-
Line-protocol engine for C20 (snapshot archives). See go/overlay/internal/verifharness/c20.

The digest function of `CV.Tar` is instantiated with `CV.Sha256.sha256`; the metadata codec
(`json.Unmarshal` onto the current struct) is an oracle carried on the operation line: one
token per `meta.json` member in archive order, `!` when decoding fails, otherwise the canonical
form of the struct after decoding. The engine's metadata value is (canonical form, unread tokens).

ops (tokens separated by single spaces)
  read  <members> <eof|err> <oracle>
  gz    <0|1> <members|@> <eof|err> <clean|corrupt|extra> <oracle>      (@ = the base members)
  base  <members> <oracle> <hdrs>       remember a complete archive, its oracle (later `^`) and the
                                        512-byte header block of each member (`-` = not given);
                                        answers count, byte length and per header name:size:checksum-ok
  layout                                regions of the base archive
  write <meta bytes> <size> <snap> <0|1>   archive.go write: members it produces (`short-snap` on error);
                                        the last flag is the map order of the two SHA256SUMS lines
  trunc <cut> <oracle>                  base archive cut to its first <cut> bytes
  bflip <pos> <val> <oracle>            base archive with byte <pos> set to <val>
members = `-` or comma separated `name;data;short` (name, data as string tokens, short 0|1)
          or `@i` (member i of the base archive); `@` alone = all base members.
-/
import CV.Tar
import CV.Sha256
namespace CV.Engine.C20
open CV CV.Tar

abbrev Meta := Bytes × List (Option Bytes)

/-- the oracle: consume one token per decoded meta.json member -/
def applyO (m : Meta) (_buf : Bytes) : Option Meta :=
  match m.2 with
  | [] => none
  | none :: _ => none
  | some c :: rest => some (c, rest)

abbrev Base := List (Bytes × Bytes)

/-- `name;data;short`, or `@i` = member i of the base archive, complete -/
def parseMember (base : Base) (tok : String) : Option Member :=
  match tok.toList with
  | '@' :: rest => do
      let i ← (String.ofList rest).toNat?
      let x ← base[i]?
      pure (full x)
  | _ =>
    match tok.splitOn ";" with
    | [n, d, s] => do
        let name ← decB n; let data ← decB d; let short ← decBool s
        pure ⟨name, data, short⟩
    | _ => none

def parseMembers (base : Base) (tok : String) : Option (List Member) :=
  if tok == "@" then some (base.map full) else (decList tok).mapM (parseMember base)

def parseEnding (tok : String) : Option Ending :=
  if tok == "eof" then some .eof else if tok == "err" then some .err else none

def parseTail (tok : String) : Option GzTail :=
  if tok == "clean" then some .clean else if tok == "corrupt" then some .corrupt
  else if tok == "extra" then some .extra else none

/-- `^` = the oracle registered with the base archive -/
def parseOracle (baseO : List (Option Bytes)) (tok : String) : Option (List (Option Bytes)) :=
  if tok == "^" then some baseO
  else (decList tok).mapM fun t => if t == "!" then some none else (decB t).map some

def errName : Err → String
  | .tar => "tar" | .metaRead => "meta-read" | .metaJson => "meta-json" | .stateIO => "state-io"
  | .sumsRead => "sums-read" | .unexpected => "unexpected" | .sumsScan => "sums-scan"
  | .sumsTooLong => "sums-toolong" | .listMissing => "list-missing" | .hashFailed => "hash-failed"
  | .fileMissing => "file-missing" | .missingMeta => "missing-meta" | .missingState => "missing-state" | .gzHeader => "gz-header" | .gzTail => "gz-tail" | .gzExtra => "gz-extra"

def verdict : Except Err (Meta × Bytes) → String
  | .error e => "err " ++ errName e
  | .ok (m, st) => s!"ok m={encB m.1} n={st.length} h={hexOf (Sha256.sha256 st)}"

/-- the oracle must have one token per meta.json member, otherwise the line is garbled -/
def oracleFits (ms : List Member) (o : List (Option Bytes)) : Bool :=
  (ms.filter (·.name = nMeta)).length == o.length

/-- canonical form (`json.Marshal`) of the zero `raft.SnapshotMeta` the callers start from -/
def zeroMeta : Bytes :=
  "{\"Version\":0,\"ID\":\"\",\"Index\":0,\"Term\":0,\"Peers\":null,\"Configuration\":{\"Servers\":null},\"ConfigurationIndex\":0,\"Size\":0}".toUTF8.toList.map (·.toNat)

def runRead (s : Stream) (o : List (Option Bytes)) : String :=
  verdict (readStream Sha256.sha256 applyO (zeroMeta, o) s)

def viewStr (s : Stream) : String :=
  let ms := s.members.map fun m => encB m.name ++ ":" ++ (if m.short then "s" else "c") ++ toString m.data.length
  encList ms ++ "/" ++ (match s.ending with | .eof => "eof" | .err => "err")

def membersStr (s : Stream) : String :=
  encList (s.members.map fun m => encB m.name ++ ";" ++ encB m.data ++ ";" ++ encBool m.short) ++ "/" ++
    (match s.ending with | .eof => "eof" | .err => "err")

def clsStr : Cls → String
  | .header i => s!"hdr{i}" | .data i => s!"data{i}" | .pad i => s!"pad{i}" | .trailer => "trailer"

def regionStr (r : Region) : String := s!"{clsStr r.cls}:{r.start}:{r.len}"

structure St where
  base : Base := []
  orc  : List (Option Bytes) := []
  hdrs : List Bytes := []     -- header block of each base member ([] = not given)

def hdrStr (h : Bytes) : String :=
  let sz := match hdrSize h with | some n => toString n | none => "?"
  s!"{encB (hdrName h)}:{sz}:{encBool (checksumOK h)}"

def step (st : St) (toks : List String) : St × String :=
  let base := st.base
  let parseMembers := parseMembers st.base
  let parseOracle := parseOracle st.orc
  let ret (s : String) : St × String := (st, s)
  match toks with
  | ["read", ms, e, o] =>
    match parseMembers ms, parseEnding e, parseOracle o with
    | some ms, some e, some o =>
      if oracleFits ms o then ret (runRead ⟨ms, e⟩ o) else ret ("bad-op")
    | _, _, _ => ret ("bad-op")
  | ["gz", h, ms, e, t, o] =>
    match decBool h, parseMembers ms, parseEnding e, parseTail t, parseOracle o with
    | some h, some ms, some e, some t, some o =>
      if oracleFits ms o then
        ret (verdict (readGz Sha256.sha256 applyO (zeroMeta, o) ⟨h, ⟨ms, e⟩, t⟩))
      else ret ("bad-op")
    | _, _, _, _, _ => ret ("bad-op")
  | ["base", ms, o, hs] =>
    match parseMembers ms, parseOracle o, (decList hs).mapM decB with
    | some ms, some o, some hs =>
      if ms.all (fun m => !m.short) && oracleFits ms o && (hs.isEmpty || hs.length == ms.length) &&
          hs.all (·.length == 512) then
        let b : Base := ms.map fun m => (m.name, m.data)
        (⟨b, o, hs⟩, s!"ok n={b.length} total={total (b.map (·.2.length))} hdr={encList (hs.map hdrStr)}")
      else ret ("bad-op")
    | _, _, _ => ret ("bad-op")
  | ["write", mb, sz, snap, sw] =>
    match decB mb, sz.toNat?, decB snap, decBool sw with
    | some mb, some sz, some snap, some sw =>
      match writeStream Sha256.sha256 (fun (_ : Unit) => mb) (fun _ => sz) sw () snap with
      | none => ret ("short-snap")
      | some s => ret (membersStr s)
    | _, _, _, _ => ret ("bad-op")
  | ["layout"] =>
    ret (encList ((layout (base.map (·.2.length))).map regionStr))
  | ["trunc", c, o] =>
    match c.toNat?, parseOracle o with
    | some cut, some o =>
      let s := truncStream base cut
      if oracleFits s.members o then ret (s!"view={viewStr s} {runRead s o}") else ret ("bad-op")
    | _, _ => ret ("bad-op")
  | ["bflip", p, v, o] =>
    match p.toNat?, v.toNat?, parseOracle o with
    | some pos, some val, some o =>
      if val < 256 then
        match (if st.hdrs.isEmpty then flipViews base pos val else flipViewsH st.hdrs base pos val) with
        | [s] =>
          if oracleFits s.members o then ret (s!"view={viewStr s} {runRead s o}") else ret ("bad-op")
        | [s1, s2] =>
          if oracleFits s1.members o then
            ret (s!"chk view={viewStr s1}|{viewStr s2} {runRead s1 o}|{runRead s2 (o.take (s2.members.filter (·.name = nMeta)).length)}")
          else ret ("bad-op")
        | _ => ret ("bad-op")
      else ret ("bad-op")
    | _, _, _ => ret ("bad-op")
  | _ => ret ("bad-op")

def engine : Engine := { State := St, init := {}, step := step }

end CV.Engine.C20
