/-
Line-protocol engine for C06 (blocking-query contract). Writes are the lines of the shared store
engine (CV.Engine.StoreCore: kv / sc / sd / reg / dereg / reap / pqs / pqd / txn, `reset`, `dump`);
in addition:

  q  <query…>            evaluate a query in the current state:  idx=<raw index> rep=<reported> <result>
  qa <fired> <query…>    the same, plus the watch verdict of the LAST write: the Go harness passes
                         whether the WatchSet it built before the write has a closed channel after it
                         (<fired> = 0|1); the model answers  w=ok  unless its own footprint says the
                         watch must have fired and Go's did not (w=missed). `c=<0|1>` tells whether the
                         model's footprint changed (printed only in the `w=missed` case).
  query tokens:  kvget k | kvlist p | kvkeys p sep | sessget id | sesslist | nodesess node | nodes |
                 services | servicesjoin | svcnodes name | connectnodes name | tagnodes name tag |
                 nodesvcs node | nodesvclist node | nodechecks node | svcchecks name | checksinstate st |
                 csn name | csnconnect name | csntag name tag | pqget id | pqlist

  bq <min> <evals>       a scripted request against the blocking loop (round 5): <evals> is a comma list of
                         <raw index>:<n|f|c>:<0|1> — the index the k-th call of the query function stores, the
                         sentinel it returns (none / ErrNotFound / ErrNotChanged) and whether its WatchSet is
                         woken; the answer  evals=<number of calls> idx=<index of the response>  is computed by
                         CV.BQ.scriptRun (→ query → runF → loopF) over the reported indexes.

Every answer is computed by `CV.Store.Query.run` / `Query.fired` / `CV.BQ.scriptRun`, the functions the
theorems of CV.Props.C06 are about.
-/
import CV.Engine.StoreCore
import CV.Store.Query
import CV.BlockingQuery
namespace CV.Engine.C06
open CV CV.Store CV.Engine.StoreCore

structure St where
  prev : Store.State := {}
  cur : Store.State := {}

def bar (l : List String) : String := "|".intercalate l
def tilde (l : List String) : String := if l.isEmpty then "-" else "~".intercalate l

def showSvcNode (x : SvcNode) : String :=
  match x.node with
  | some n => showSvc x.svc ++ ";" ++ encS n.id ++ ";" ++ encS n.addr
  | none => showSvc x.svc ++ ";?"

/-- `ServiceNode.ToNodeService()`: the instance without the node-name spelling of its row -/
def showNodeSvc (v : Svc) : String := semi [encS v.id, encS v.name, encNat v.port, encNat v.create, encNat v.modify]

def showCSN (x : CSN) : String := bar [showNode x.node, showNodeSvc x.svc, tilde (x.checks.map showChk)]

def showOpt {α : Type} (f : α → String) : Option α → String
  | some a => f a
  | none => "-"

def showQRes : QRes → String
  | .err e => "err:" ++ e.name
  | .kv o => showOpt showKV o
  | .kvs l => encList (l.map showKV)
  | .keys l => encList (l.map encB)
  | .sess o => showOpt showSess o
  | .sesss l => encList (l.map showSess)
  | .nodes l => encList (l.map showNode)
  | .svcs l => encList (l.map showSvc)
  | .svcNodes l => encList (l.map showSvcNode)
  | .nodeSvcs none => "-"
  | .nodeSvcs (some (n, l)) => bar [showNode n, tilde (l.map showNodeSvc)]
  | .chks l => encList (l.map showChk)
  | .csns l => encList (l.map showCSN)
  | .pq o => showOpt showPQ o
  | .pqs l => encList (l.map showPQ)

def parseQuery : List String → Option Query
  | ["kvget", k] => do pure (.kvGet (← decB k))
  | ["kvlist", p] => do pure (.kvList (← decB p))
  | ["kvkeys", p, sep] => do pure (.kvKeys (← decB p) (← decB sep))
  | ["sessget", id] => do pure (.sessGet (← decS id))
  | ["sesslist"] => some .sessList
  | ["nodesess", n] => do pure (.nodeSessions (← decS n))
  | ["nodes"] => some .nodes
  | ["services"] => some .services
  | ["servicesjoin"] => some .servicesJoin
  | ["svcnodes", n] => do pure (.serviceNodes (← decS n))
  | ["connectnodes", n] => do pure (.connectNodes (← decS n))
  | ["tagnodes", n, t] => do pure (.tagNodes (← decS n) (← decS t))
  | ["nodesvcs", n] => do pure (.nodeServices (← decS n))
  | ["nodesvclist", n] => do pure (.nodeServiceList (← decS n))
  | ["nodechecks", n] => do pure (.nodeChecks (← decS n))
  | ["svcchecks", n] => do pure (.serviceChecks (← decS n))
  | ["checksinstate", st] => do pure (.checksInState (← decS st))
  | ["csn", n] => do pure (.csn (← decS n))
  | ["csnconnect", n] => do pure (.csnConnect (← decS n))
  | ["csntag", n, t] => do pure (.csnTag (← decS n) (← decS t))
  | ["pqget", id] => do pure (.pqGet (← decS id))
  | ["pqlist"] => some .pqList
  | _ => none

def answer (s : Store.State) (q : Query) : String :=
  let r := q.run s
  s!"idx={r.1} rep={reported r.1} {showQRes r.2}"

def parseEval (tok : String) : Option BQ.Eval :=
  match tok.splitOn ":" with
  | [i, s, w] => do
    let idx ← i.toNat?
    let sent ← (if s == "n" then some BQ.Sentinel.none else if s == "f" then some .notFound
      else if s == "c" then some .notChanged else none)
    let woken ← decBool w
    pure { idx := reported idx, sent, woken }
  | _ => none

def answerBQ (minTok evalsTok : String) : String :=
  match minTok.toNat?, (decList evalsTok).mapM parseEval with
  | some m, some es =>
    match BQ.scriptRun m es with
    | some (n, i) => s!"evals={n} idx={i}"
    | none => "bad-op"
  | _, _ => "bad-op"

def step (st : St) (toks : List String) : St × String :=
  match toks with
  | ["reset"] => ({}, "ok")
  | ["bq", m, es] => (st, answerBQ m es)
  | ["dump"] => (st, dump st.cur)
  | "q" :: rest =>
    match parseQuery rest with
    | some q => (st, answer st.cur q)
    | none => (st, "bad-op")
  | "qa" :: fired :: rest =>
    match parseQuery rest, decBool fired with
    | some q, some f =>
      let c := q.fired st.prev st.cur
      let w := if c && !f then " w=missed c=1" else " w=ok"
      (st, answer st.cur q ++ w)
    | _, _ => (st, "bad-op")
  | _ =>
    match parseCmd toks with
    | some (i, c) =>
      let (s', r) := apply st.cur i c
      ({ prev := st.cur, cur := s' }, showResult r)
    | none => (st, "bad-op")

def engine : Engine := { State := St, init := {}, step := step }

end CV.Engine.C06
