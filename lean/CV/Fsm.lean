/-
CV.Fsm — model of the FSM dispatch layer of consul (`agent/consul/fsm/fsm.go`, `(*FSM).Apply`)
and of a replica replaying a committed log (property C01).

What is modelled, line by line from `Apply`:

    buf := log.Data
    msgType := structs.MessageType(buf[0])               -- empty `Data` ⇒ Go runtime panic (index out of range)
    ignoreUnknown := false
    if msgType&IgnoreUnknownTypeFlag == IgnoreUnknownTypeFlag {   -- flag = 128 = top bit of the byte
        msgType &= ^IgnoreUnknownTypeFlag; ignoreUnknown = true }
    if fn := c.apply[msgType]; fn != nil { return fn(buf[1:], log.Index) }
    if ignoreUnknown { warn; return nil }
    if structs.CEDowngrade && msgType >= 64 { warn; return nil }
    panic(...)

The model is generic in the handler table (`Table`): a handler receives everything the Go
handler can consult besides the command itself as an explicit *environment* `E` (wall clock, map
iteration order of this process, leader-local state such as the lock-delay map and the
tombstone-GC timers), the replicated state `S`, the Raft index and the payload `buf[1:]`, and
returns the new replicated state and the command result — or `none` when the Go handler panics
(`panic(fmt.Errorf("failed to decode request: …"))`, which kills the server process).

Leader-local state is *not* part of `S` and is not threaded by `run`: every log position gets an
arbitrary environment `envs pos`, which over-approximates any evolution of the local state, the
clock and the map seed between two commands (DESIGN §5 C01: "`run m envs s log` feeds
replica-specific environments, one per log entry").

Not modelled: chunked-log reassembly (`raftchunking`, `logVerificationChunkingShim`), `Snapshot`
/ `Restore` (C02), and — in this round — the concrete handlers (`CV.Store.apply` is being built
separately; instantiating `EnvIndependent` for it is the per-family obligation stated at the end
of this file and in `CV/Props/C01.lean`).

Bytes are `Nat`s; every definition below is meant for values `< 256` (the engine rejects
anything else as `bad-op`), where `128 ≤ b` is exactly "top bit set".
-/
import CV.Proto

namespace CV.Fsm
open CV

/-- `structs.IgnoreUnknownTypeFlag` (checked against the regenerated fact in `CV.Props.C01`). -/
def ignoreFlag : Nat := 128

/-- First message type that only Consul Enterprise uses (`msgType >= 64` in `Apply`). -/
def entFloor : Nat := 64

/-- What the environment of one replica at one log position is made of. The generic theorems
    never look inside (they quantify over an arbitrary `E`); this record fixes the reading used by
    the concrete instantiations and by the non-vacuity examples. -/
structure Env (L : Type) where
  /-- wall clock of this server when the entry is applied (`time.Now()`) -/
  clock : Nat
  /-- seed of Go's randomised map iteration order in this process / at this moment -/
  mapSeed : Nat
  /-- leader-local, non-replicated state (lock-delay map, tombstone-GC hints, metrics sink) -/
  loc : L

/-- A command handler: `(*FSM).applyXxx(buf[1:], index)` with its hidden inputs made explicit.
    `none` = the handler panics (decode failure). -/
abbrev Handler (E S R : Type) := E → S → Nat → Bytes → Option (S × R)

/-- The dispatch table `c.apply`: message type byte ↦ handler (Go: `map[structs.MessageType]command`;
    `registerCommand` panics on a duplicate, so keys are unique — `List.lookup` returns the first). -/
abbrev Table (E S R : Type) := List (Nat × Handler E S R)

/-- Observable outcome of `Apply` on one log entry. -/
inductive Outcome (R : Type) where
  /-- a registered handler (table slot `slot`) ran and returned `r` -/
  | handled (slot : Nat) (r : R)
  /-- unknown type, tolerated: `IgnoreUnknownTypeFlag` set, or CE-downgrade and type ≥ 64; returns `nil` -/
  | ignored
  /-- unknown type, not tolerated: `panic(fmt.Errorf("failed to apply request: %#v", buf))` -/
  | panicUnknown
  /-- the selected handler panicked (decode failure) -/
  | panicHandler (slot : Nat)
  /-- `log.Data` empty: `buf[0]` is a runtime panic -/
  | panicEmpty
  deriving DecidableEq, Repr

def Outcome.isPanic {R : Type} : Outcome R → Bool
  | .panicUnknown | .panicHandler _ | .panicEmpty => true
  | _ => false

/-- `msgType`, `ignoreUnknown` as computed by `Apply` from the first byte. -/
def splitType (b0 : Nat) : Nat × Bool :=
  if ignoreFlag ≤ b0 then (b0 - ignoreFlag, true) else (b0, false)

/-- One call of `(*FSM).Apply`. `ced` is `structs.CEDowngrade` (a process-wide constant read from
    the process environment at start-up: "identically configured servers" fixes it). -/
def dispatch {E S R : Type} (tbl : Table E S R) (ced : Bool) (env : E) (s : S) (idx : Nat) (buf : Bytes) :
    S × Outcome R :=
  match buf with
  | [] => (s, .panicEmpty)
  | b0 :: payload =>
    let t := (splitType b0).1
    let ign := (splitType b0).2
    match tbl.lookup t with
    | some h =>
      match h env s idx payload with
      | some (s', r) => (s', .handled t r)
      | none => (s, .panicHandler t)
    | none =>
      if ign then (s, .ignored)
      else if ced && decide (entFloor ≤ t) then (s, .ignored)
      else (s, .panicUnknown)

/-- What a replica has after replaying a log: replicated state, the per-entry outcomes (the last
    one is the panic if the server died), and whether it died. -/
structure Trace (S R : Type) where
  state : S
  results : List (Outcome R)
  crashed : Bool
  deriving DecidableEq

/-- Replay from log position `pos`: entries are `(raft index, data)`; a panic kills the server,
    nothing after it is applied. -/
def runFrom {E S R : Type} (tbl : Table E S R) (ced : Bool) (envs : Nat → E) :
    Nat → S → List (Nat × Bytes) → Trace S R
  | _, s, [] => ⟨s, [], false⟩
  | pos, s, (idx, buf) :: rest =>
    let (s', o) := dispatch tbl ced (envs pos) s idx buf
    if o.isPanic then ⟨s', [o], true⟩
    else
      let t := runFrom tbl ced envs (pos + 1) s' rest
      ⟨t.state, o :: t.results, t.crashed⟩

/-- A replica replays a committed log from state `s`. -/
def run {E S R : Type} (tbl : Table E S R) (ced : Bool) (envs : Nat → E) (s : S)
    (log : List (Nat × Bytes)) : Trace S R :=
  runFrom tbl ced envs 0 s log

/-- The replicated state after replaying `log`. -/
def replay {E S R : Type} (tbl : Table E S R) (ced : Bool) (envs : Nat → E) (s : S)
    (log : List (Nat × Bytes)) : S :=
  (run tbl ced envs s log).state

/-! ### The hypothesis of `replicas_agree`, as explicit predicates -/

/-- A handler whose replicated output (new state and result, or the panic) does not depend on the
    environment. This is the formal content of "no replicated value may depend on anything that
    is not carried in the command itself". -/
def HandlerEnvIndependent {E S R : Type} (h : Handler E S R) : Prop :=
  ∀ (e₁ e₂ : E) (s : S) (idx : Nat) (p : Bytes), h e₁ s idx p = h e₂ s idx p

/-- Every handler of the table is environment independent. -/
def EnvIndependent {E S R : Type} (tbl : Table E S R) : Prop :=
  ∀ x ∈ tbl, HandlerEnvIndependent x.2

/-- Relative version: handlers need to be environment independent only on states satisfying an
    invariant that every handler preserves (under every environment). This is the shape the
    concrete store needs: e.g. `AssignManualServiceVIPs` ranges over a Go map and is
    order-insensitive only because each manual IP belongs to at most one service. -/
structure EnvIndependentOn {E S R : Type} (Inv : S → Prop) (tbl : Table E S R) : Prop where
  indep : ∀ x ∈ tbl, ∀ (e₁ e₂ : E) (s : S) (idx : Nat) (p : Bytes), Inv s → x.2 e₁ s idx p = x.2 e₂ s idx p
  preserved : ∀ x ∈ tbl, ∀ (e : E) (s s' : S) (r : R) (idx : Nat) (p : Bytes),
      Inv s → x.2 e s idx p = some (s', r) → Inv s'

/-- A handler written without access to the environment. -/
def liftPure {E S R : Type} (f : S → Nat → Bytes → Option (S × R)) : Handler E S R :=
  fun _ s idx p => f s idx p

/-- The registered message types of a table. -/
def slots {E S R : Type} (tbl : Table E S R) : List Nat := tbl.map (·.1)

end CV.Fsm
