/-
CV.Tar — model of consul's snapshot archive format (property C20).

Mirrors, as the code is,
  * snapshot/archive.go   `write`, `read`, `hashList.Encode`, `hashList.DecodeAndVerify`
  * snapshot/snapshot.go  `Verify`, `Read`, `concludeGzipRead`, `Restore`
in two layers.

Member layer.  What `archive/tar`'s `Reader` hands to `read` is a `Stream`: the members in
archive order (name, the bytes that could be read, and whether reading them ended in an error
— a member cut short), followed by how `Next` ended (clean `io.EOF` or an error).  `readStream`
is the loop of `read` over that stream followed by `DecodeAndVerify` on the collected
SHA256SUMS bytes.  Faithful details that matter:
  * the hashes of `meta.json` and `state.bin` exist before the loop starts (`hl.Add`), so an
    archive without such a member is checked against the hash of the empty string; since the
    repository fix 4aca783 the absence itself is an error, reported after `DecodeAndVerify`
    (`sawMeta` / `sawState`);
  * repeated members are fed into the same hash (and, for `state.bin`, appended to the output;
    for `meta.json`, decoded one after the other into the same struct; for `SHA256SUMS`,
    appended to the same buffer);
  * any other member name is an error;
  * `DecodeAndVerify` = `bufio.Scanner` line splitting (`\n`, one trailing `\r` dropped, last
    unterminated line kept if non-empty, 64 KiB token limit) and `fmt.Sscanf(line, "%x  %s")`
    (leading space skipped, hex pairs of either case, at least one space rune, the next
    space-delimited word, anything after it ignored; the space set is Go's `isSpace` table
    including the non-ASCII space runes); every listed name must be one of the two hashed
    names with an equal digest, and both names must be listed.
The digest function `H` (SHA-256 in the code) and the JSON decoding of the metadata
(`apply cur buf` = `json.Unmarshal(buf, &metadata)` onto the current struct) are parameters.

Byte layer.  `layout` gives the ustar framing of the uncompressed archive (512-byte header,
data, zero padding to a multiple of 512, two zero blocks), `truncStream` / `flipViews` say what
stream `archive/tar` presents when the file is cut at a byte or has one byte changed.

Gzip layer.  `readGz` is `Verify`/`Read`: gzip header check, `read` on the decompressed
stream, then `concludeGzipRead`.  `restore` is `Restore`: the raft callback is applied to what
`readGz` returned and to nothing else.

Core-only Lean; no Mathlib.
-/
import CV.Proto
namespace CV.Tar
open CV

/-! ## names, errors, streams -/

/-- "meta.json" -/
def nMeta : Bytes := [109, 101, 116, 97, 46, 106, 115, 111, 110]
/-- "state.bin" -/
def nState : Bytes := [115, 116, 97, 116, 101, 46, 98, 105, 110]
/-- "SHA256SUMS" -/
def nSums : Bytes := [83, 72, 65, 50, 53, 54, 83, 85, 77, 83]

/-- One constructor per `return fmt.Errorf(...)` site of `read` / `DecodeAndVerify` /
    `Verify` / `concludeGzipRead`. -/
inductive Err
  | tar          -- "failed reading snapshot": archive.Next() failed
  | metaRead     -- "failed to read snapshot metadata": reading meta.json data failed
  | metaJson     -- "failed to decode snapshot metadata": json.Unmarshal failed
  | stateIO      -- "failed to read or write snapshot data"
  | sumsRead     -- "failed to read snapshot hashes"
  | unexpected   -- "unexpected file %q in snapshot"
  | sumsScan     -- Sscanf error on a SHA256SUMS line
  | sumsTooLong  -- bufio.Scanner: token too long
  | listMissing  -- "list missing hash for %q": a listed name that was never hashed
  | hashFailed   -- "hash check failed for %q"
  | fileMissing  -- "file missing for %q": a hashed name that is not listed
  | missingMeta  -- "snapshot is missing the \"meta.json\" file": no such member was seen
  | missingState -- "snapshot is missing the \"state.bin\" file"
  | gzHeader     -- "failed to decompress snapshot": gzip.NewReader failed
  | gzTail       -- concludeGzipRead: reading to the end of the gzip stream failed
  | gzExtra      -- concludeGzipRead: unread uncompressed bytes remain
deriving DecidableEq, Repr

structure Member where
  name  : Bytes
  data  : Bytes
  /-- reading the member's data ended in an error after `data` (cut short / corrupt) -/
  short : Bool
deriving DecidableEq, Repr

inductive Ending
  | eof   -- `Next` returned io.EOF
  | err   -- `Next` returned another error
deriving DecidableEq, Repr

structure Stream where
  members : List Member
  ending  : Ending
deriving DecidableEq, Repr

/-! ## SHA256SUMS text: bufio.Scanner(ScanLines) + fmt.Sscanf("%x  %s") -/

/-- `bufio.ScanLines` tokens before `dropCR` (accumulator is the current line, reversed). -/
def splitAux : Bytes → Bytes → List Bytes
  | [], cur => if cur = [] then [] else [cur.reverse]
  | b :: rest, cur => if b = 10 then cur.reverse :: splitAux rest [] else splitAux rest (b :: cur)

def splitLines (bs : Bytes) : List Bytes := splitAux bs []

/-- `dropCR` -/
def dropCR (l : Bytes) : Bytes := if l.getLast? = some 13 then l.dropLast else l

/-- Byte width of the space rune that starts the list (Go's `fmt.isSpace` table, UTF-8
    encoded), or 0 when the list does not start with one. A non-continuation byte always
    starts a new rune in Go's decoder, and every pattern below starts with one, so matching
    bytes is the same as decoding runes. -/
def spaceWidth : Bytes → Nat
  | [] => 0
  | b :: rest =>
    if (9 ≤ b ∧ b ≤ 13) ∨ b = 32 then 1
    else if b = 0xC2 then
      match rest with
      | c :: _ => if c = 0x85 ∨ c = 0xA0 then 2 else 0
      | [] => 0
    else if b = 0xE1 then
      match rest with
      | c :: d :: _ => if c = 0x9A ∧ d = 0x80 then 3 else 0
      | _ => 0
    else if b = 0xE2 then
      match rest with
      | c :: d :: _ =>
        if c = 0x80 ∧ ((0x80 ≤ d ∧ d ≤ 0x8A) ∨ d = 0xA8 ∨ d = 0xA9 ∨ d = 0xAF) then 3
        else if c = 0x81 ∧ d = 0x9F then 3 else 0
      | _ => 0
    else if b = 0xE3 then
      match rest with
      | c :: d :: _ => if c = 0x80 ∧ d = 0x80 then 3 else 0
      | _ => 0
    else 0

/-- `SkipSpace` (no newline can occur inside a scanner token); `k` = bytes of the current
    space rune still to be dropped. -/
def skipAux : Nat → Bytes → Bytes
  | _, [] => []
  | k + 1, _ :: rest => skipAux k rest
  | 0, b :: rest =>
    if spaceWidth (b :: rest) = 0 then b :: rest else skipAux (spaceWidth (b :: rest) - 1) rest

def skipSpaces (l : Bytes) : Bytes := skipAux 0 l

/-- the `%s` word: up to the next space rune or the end -/
def takeToken : Bytes → Bytes
  | [] => []
  | b :: rest => if spaceWidth (b :: rest) = 0 then b :: takeToken rest else []

def hexVal (c : Nat) : Option Nat :=
  if 48 ≤ c ∧ c ≤ 57 then some (c - 48)
  else if 97 ≤ c ∧ c ≤ 102 then some (c - 87)
  else if 65 ≤ c ∧ c ≤ 70 then some (c - 55)
  else none

/-- `hexString`: decode hex pairs while the next character is a hex digit; `none` when a pair
    is broken (second character missing or not hex). Returns the decoded bytes and the rest. -/
def hexPairs : Bytes → Option (Bytes × Bytes)
  | [] => some ([], [])
  | [c] => match hexVal c with
    | none => some ([], [c])
    | some _ => none
  | c1 :: c2 :: rest =>
    match hexVal c1 with
    | none => some ([], c1 :: c2 :: rest)
    | some v1 =>
      match hexVal c2 with
      | none => none
      | some v2 =>
        match hexPairs rest with
        | none => none
        | some (d, r) => some ((v1 * 16 + v2) :: d, r)

/-- `fmt.Sscanf(line, "%x  %s", &sha, &file)`; `none` = any scan error. The word is returned
    as raw bytes (Go re-encodes invalid UTF-8 as U+FFFD, which can never turn a word into one
    of the two ASCII names or away from it). -/
def scanLine (l : Bytes) : Option (Bytes × Bytes) :=
  let l1 := skipSpaces l
  if l1 = [] then none                                  -- unexpected EOF
  else match hexPairs l1 with
    | none => none                                      -- illegal hex digit / EOF inside a pair
    | some (sha, r) =>
      if sha = [] then none                             -- no hex data for %x string
      else if r = [] then none                          -- EOF where %s expects a word
      else if spaceWidth r = 0 then none                -- expected space in input to match format
      else
        let r2 := skipSpaces r
        if r2 = [] then none                            -- unexpected EOF
        else some (sha, takeToken r2)

/-- The loop of `DecodeAndVerify` over the scanner tokens (`hm`, `hs` are the digests of
    everything hashed as meta.json / state.bin), then the "everything we had a hash for was
    seen" check. -/
def checkLines (hm hs : Bytes) : List Bytes → Bool → Bool → Except Err Unit
  | [], seenM, seenS => if seenM && seenS then .ok () else .error .fileMissing
  | l :: ls, seenM, seenS =>
    if 65536 ≤ l.length then .error .sumsTooLong
    else match scanLine (dropCR l) with
      | none => .error .sumsScan
      | some (sha, file) =>
        if file = nMeta then
          if sha = hm then checkLines hm hs ls true seenS else .error .hashFailed
        else if file = nState then
          if sha = hs then checkLines hm hs ls seenM true else .error .hashFailed
        else .error .listMissing

/-! ## `read` -/

/-- loop state of `read` -/
structure Acc (M : Type) where
  md     : M        -- the caller's metadata struct
  metaB  : Bytes    -- everything fed to metaHash
  stateB : Bytes    -- everything fed to snapHash = everything written to `snap`
  sumsB  : Bytes    -- shaBuffer
  sawMeta  : Bool   -- a meta.json member was reached
  sawState : Bool   -- a state.bin member was reached

variable {M : Type}

/-- the `for { hdr, err := archive.Next() ... switch hdr.Name ... }` loop -/
def loop (apply : M → Bytes → Option M) : List Member → Ending → Acc M → Except Err (Acc M)
  | [], .eof, a => .ok a
  | [], .err, _ => .error .tar
  | m :: rest, e, a =>
    if m.name = nMeta then
      if m.short then .error .metaRead
      else match apply a.md m.data with
        | none => .error .metaJson
        | some mm => loop apply rest e { a with md := mm, metaB := a.metaB ++ m.data, sawMeta := true }
    else if m.name = nState then
      if m.short then .error .stateIO
      else loop apply rest e { a with stateB := a.stateB ++ m.data, sawState := true }
    else if m.name = nSums then
      if m.short then .error .sumsRead
      else loop apply rest e { a with sumsB := a.sumsB ++ m.data }
    else .error .unexpected

def verify (H : Bytes → Bytes) (a : Acc M) : Except Err Unit :=
  checkLines (H a.metaB) (H a.stateB) (splitLines a.sumsB) false false

/-- `read(in, &metadata, snap)`: on success the metadata struct and the bytes written to `snap`.
    After `DecodeAndVerify` succeeded the code checks that a meta.json and a state.bin member
    were actually seen (an absent member hashes like an empty one), meta.json first. -/
def readStream (H : Bytes → Bytes) (apply : M → Bytes → Option M) (m0 : M) (s : Stream) :
    Except Err (M × Bytes) :=
  match loop apply s.members s.ending ⟨m0, [], [], [], false, false⟩ with
  | .error e => .error e
  | .ok a =>
    match verify H a with
    | .error e => .error e
    | .ok () =>
      if a.sawMeta = false then .error .missingMeta
      else if a.sawState = false then .error .missingState
      else .ok (a.md, a.stateB)

/-! ## `write` -/

def hexChar (n : Nat) : Nat := if n < 10 then 48 + n else 87 + n

/-- `%x` of a byte slice -/
def hexEnc : Bytes → Bytes
  | [] => []
  | b :: r => hexChar (b / 16) :: hexChar (b % 16) :: hexEnc r

/-- one line of `hashList.Encode`: `"%x  %s\n"` -/
def sumsLine (d nm : Bytes) : Bytes := hexEnc d ++ ([32, 32] ++ (nm ++ [10]))

/-- `hashList.Encode` ranges over a Go map: the order of the two lines is a parameter. -/
def encodeSums (swap : Bool) (hm hs : Bytes) : Bytes :=
  if swap then sumsLine hs nState ++ sumsLine hm nMeta else sumsLine hm nMeta ++ sumsLine hs nState

/-- `write(out, metadata, snap)` as the stream a tar reader gets back from `out`. `enc` is
    `json.Encoder.Encode`, `size` is `metadata.Size`; exactly `size` bytes are copied from
    `snap` (`io.CopyN`), a shorter `snap` is an error (`none`). -/
def writeStream (H : Bytes → Bytes) (enc : M → Bytes) (size : M → Nat) (swap : Bool)
    (m : M) (snap : Bytes) : Option Stream :=
  if snap.length < size m then none
  else
    let mb := enc m
    let st := snap.take (size m)
    some ⟨[⟨nMeta, mb, false⟩, ⟨nState, st, false⟩, ⟨nSums, encodeSums swap (H mb) (H st), false⟩], .eof⟩

/-! ## gzip wrapper and restore -/

/-- what `concludeGzipRead` finds after `read` returned -/
inductive GzTail
  | clean     -- io.EOF, nothing left
  | corrupt   -- an error (truncated stream, bad CRC/length, garbage after the member)
  | extra     -- more uncompressed bytes
deriving DecidableEq, Repr

structure GzStream where
  headerOk : Bool       -- gzip.NewReader succeeded
  inner    : Stream     -- what the tar reader sees of the decompressed data
  tail     : GzTail
deriving Repr

/-- `snapshot.Verify` / `snapshot.Read` -/
def readGz (H : Bytes → Bytes) (apply : M → Bytes → Option M) (m0 : M) (g : GzStream) :
    Except Err (M × Bytes) :=
  if g.headerOk = false then .error .gzHeader
  else match readStream H apply m0 g.inner with
    | .error e => .error e
    | .ok r =>
      match g.tail with
      | .clean => .ok r
      | .corrupt => .error .gzTail
      | .extra => .error .gzExtra

/-- `snapshot.Restore`: `r.Restore(metadata, snap, 0)` is reached only with what `Read` returned. -/
def restore {ρ : Type} (H : Bytes → Bytes) (apply : M → Bytes → Option M) (m0 : M)
    (raftRestore : M → Bytes → ρ) (g : GzStream) : Except Err ρ :=
  match readGz H apply m0 g with
  | .error e => .error e
  | .ok (m, st) => .ok (raftRestore m st)

/-- Kinds of damage to the gzip file outside the compressed tar data. -/
inductive GzDamage
  | trailer          -- a change confined to the 8 trailer bytes (CRC32, ISIZE)
  | truncated        -- the file ends early, anywhere
  | garbageAfter     -- bytes that are not a gzip member follow the member
  | dataMemberAfter  -- a well-formed gzip member with non-empty content follows
  | emptyMemberAfter -- a well-formed gzip member with empty content follows
deriving DecidableEq, Repr

/-- What `compress/gzip` is trusted to present for each kind of damage, relative to the view `g0`
    of the undamaged file (validated by enumeration in the harness, not proved):
      * trailer change / truncation: the reader reports it — as a failed header, as a read error
        somewhere inside the tar data (a member cut short or `Next` failing), or, when the tar
        reader got everything it asked for, as an error when `concludeGzipRead` drains the stream
        (`gzip.Reader` verifies CRC32 and ISIZE when it reaches the end of the member);
      * garbage after the member: multistream mode tries to read another header and fails, while
        draining;
      * a further member with data: its bytes come out while draining;
      * a further empty member: nothing more comes out, clean EOF. -/
def GzContract (d : GzDamage) (g0 g : GzStream) : Prop :=
  match d with
  | .trailer | .truncated =>
    g.headerOk = false ∨ g.tail = .corrupt ∨ g.inner.ending = .err ∨ ∃ x ∈ g.inner.members, x.short = true
  | .garbageAfter => g.headerOk = g0.headerOk ∧ g.inner = g0.inner ∧ g.tail = .corrupt
  | .dataMemberAfter => g.headerOk = g0.headerOk ∧ g.inner = g0.inner ∧ g.tail = .extra
  | .emptyMemberAfter => g.headerOk = g0.headerOk ∧ g.inner = g0.inner ∧ g.tail = g0.tail

/-! ## byte layer: ustar framing -/

inductive Cls
  | header (i : Nat)   -- 512-byte header block of member i
  | data (i : Nat)     -- data bytes of member i
  | pad (i : Nat)      -- zero padding after member i
  | trailer            -- the two zero blocks
deriving DecidableEq, Repr

structure Region where
  cls   : Cls
  start : Nat
  len   : Nat
deriving DecidableEq, Repr

def padLen (n : Nat) : Nat := (512 - n % 512) % 512

/-- bytes taken by a member of data size `n` -/
def slot (n : Nat) : Nat := 512 + n + padLen n

def layoutFrom : Nat → Nat → List Nat → List Region
  | _, off, [] => [⟨.trailer, off, 1024⟩]
  | i, off, n :: ns =>
    ⟨.header i, off, 512⟩ :: ⟨.data i, off + 512, n⟩ :: ⟨.pad i, off + 512 + n, padLen n⟩ ::
      layoutFrom (i + 1) (off + slot n) ns

/-- regions of the uncompressed archive whose members have the given data sizes -/
def layout (sizes : List Nat) : List Region := layoutFrom 0 0 sizes

def total : List Nat → Nat
  | [] => 1024
  | n :: ns => slot n + total ns

/-- offset one past the last data byte of the last member (0 for an archive without members) -/
def lastDataEnd : Nat → List Nat → Nat
  | _, [] => 0
  | off, [n] => off + 512 + n
  | off, n :: m :: ns => lastDataEnd (off + slot n) (m :: ns)

def Region.contains (r : Region) (p : Nat) : Bool := r.start ≤ p && p < r.start + r.len

/-- class of byte position `p` -/
def classify (sizes : List Nat) (p : Nat) : Option Cls :=
  ((layout sizes).find? (·.contains p)).map (·.cls)

def full (x : Bytes × Bytes) : Member := ⟨x.1, x.2, false⟩

def consM (m : Member) (s : Stream) : Stream := { s with members := m :: s.members }

/-- What `archive/tar` presents when the archive with members `ms` (starting at offset `off`)
    is cut to its first `cut` bytes:
      * cut on a block boundary between members, inside padding, or after exactly one trailer
        block ⇒ clean EOF (`tryReadFull` / `readHeader` treat these as the end of the archive);
      * cut inside a header or inside a trailer block ⇒ `Next` fails (unexpected EOF);
      * cut inside a member's data ⇒ that member is short. -/
def truncFrom : Nat → List (Bytes × Bytes) → Nat → Stream
  | off, [], cut =>
    if cut ≤ off then ⟨[], .eof⟩
    else if cut < off + 512 then ⟨[], .err⟩
    else if cut = off + 512 then ⟨[], .eof⟩
    else if cut < off + 1024 then ⟨[], .err⟩
    else ⟨[], .eof⟩
  | off, x :: ms, cut =>
    if cut ≤ off then ⟨[], .eof⟩
    else if cut < off + 512 then ⟨[], .err⟩
    else if cut < off + 512 + x.2.length then ⟨[⟨x.1, x.2.take (cut - (off + 512)), true⟩], .err⟩
    else if cut < off + slot x.2.length then ⟨[full x], .eof⟩
    else consM (full x) (truncFrom (off + slot x.2.length) ms cut)

def truncStream (ms : List (Bytes × Bytes)) (cut : Nat) : Stream := truncFrom 0 ms cut

/-- Possible streams after the byte at `pos` was changed to `val` (a different value for header
    and trailer bytes, whose contents the model does not carry).
      * data byte ⇒ that byte of that member changes;
      * padding ⇒ nothing changes (the reader discards padding unread);
      * header byte outside the checksum field ⇒ the header checksum no longer matches, `Next`
        fails there; inside the 8-byte checksum field (offset 148) the stored value may or may
        not still parse to the same number: both outcomes are possible;
      * trailer byte ⇒ a non-zero block where zero blocks are expected, `Next` fails. -/
def flipFrom (val : Nat) : Nat → List (Bytes × Bytes) → Nat → List Stream
  | off, [], pos =>
    if off ≤ pos ∧ pos < off + 1024 ∧ val ≠ 0 then [⟨[], .err⟩] else [⟨[], .eof⟩]
  | off, x :: ms, pos =>
    if pos < off + 512 then
      if off + 148 ≤ pos ∧ pos < off + 156 then [⟨(x :: ms).map full, .eof⟩, ⟨[], .err⟩]
      else [⟨[], .err⟩]
    else if pos < off + 512 + x.2.length then
      [⟨⟨x.1, x.2.set (pos - (off + 512)) val, false⟩ :: ms.map full, .eof⟩]
    else if pos < off + slot x.2.length then [⟨(x :: ms).map full, .eof⟩]
    else (flipFrom val (off + slot x.2.length) ms pos).map (consM (full x))

def flipViews (ms : List (Bytes × Bytes)) (pos val : Nat) : List Stream := flipFrom val 0 ms pos

/-! ## ustar header block: what `archive/tar` is trusted to do with it

`Reader.readHeader` → `block.getFormat` first verifies the header checksum and only then uses any
field: the stored value is `parseOctal(block[148:156])`, the computed values are the sum of all 512
bytes with the 8 checksum bytes counted as spaces, once with bytes as unsigned and once as signed
numbers; the block is a header only if parsing succeeded and the stored value equals one of the
two sums (otherwise `ErrHeader`). `parseOctal` = trim leading/trailing spaces and NULs, empty ⇒ 0,
cut at the first NUL, `strconv.ParseUint(·, 8, 64)`. That — and nothing else of `archive/tar`'s
header handling — is what the byte-level theorems rely on. -/

/-- bytes at block offsets `lo ≤ · < hi`; `i` is the offset of the head of the list -/
def slice (lo hi : Nat) : Nat → Bytes → Bytes
  | _, [] => []
  | i, b :: r => if lo ≤ i ∧ i < hi then b :: slice lo hi (i + 1) r else slice lo hi (i + 1) r

/-- the 8-byte checksum field -/
def chkField (blk : Bytes) : Bytes := slice 148 156 0 blk

def isTrim (b : Nat) : Bool := b == 32 || b == 0

def trimBoth (l : Bytes) : Bytes := ((l.dropWhile isTrim).reverse.dropWhile isTrim).reverse

/-- `parser.parseString`: up to the first NUL -/
def cutNul (l : Bytes) : Bytes := l.takeWhile (· != 0)

/-- `strconv.ParseUint(s, 8, 64)` on a non-empty digit string (fields are at most 12 bytes: no
    overflow); `none` = syntax error -/
def octValue : Nat → Bytes → Option Nat
  | acc, [] => some acc
  | acc, c :: r => if 48 ≤ c ∧ c ≤ 55 then octValue (acc * 8 + (c - 48)) r else none

/-- `parser.parseOctal` -/
def parseOctal (f : Bytes) : Option Nat :=
  let t := trimBoth f
  if t = [] then some 0
  else match cutNul t with
    | [] => none
    | d => octValue 0 d

/-- unsigned checksum: all bytes, the checksum field counted as eight spaces -/
def sumU : Nat → Bytes → Nat
  | _, [] => 0
  | i, b :: r => (if 148 ≤ i ∧ i < 156 then 32 else b) + sumU (i + 1) r

/-- a byte read as a signed 8-bit number -/
def sbyte (b : Nat) : Int := if b < 128 then (b : Int) else (b : Int) - 256

/-- signed checksum (old Sun tar), same convention -/
def sumS : Nat → Bytes → Int
  | _, [] => 0
  | i, b :: r => (if 148 ≤ i ∧ i < 156 then (32 : Int) else sbyte b) + sumS (i + 1) r

/-- `getFormat`'s gate: the stored checksum parses and equals the unsigned or the signed sum -/
def checksumOK (blk : Bytes) : Bool :=
  match parseOctal (chkField blk) with
  | none => false
  | some w => decide (w = sumU 0 blk) || decide ((w : Int) = sumS 0 blk)

/-- `hdr.Name` of a plain ustar/V7 header: NUL-terminated bytes of the name field (the ustar
    prefix field, PAX and GNU long names are not modelled: `write` never produces them) -/
def hdrName (blk : Bytes) : Bytes := cutNul (slice 0 100 0 blk)

/-- `hdr.Size` when the size field is octal (`none`: not octal or base-256) -/
def hdrSize (blk : Bytes) : Option Nat :=
  match slice 124 136 0 blk with
  | [] => none
  | b :: r => if 128 ≤ b then none else parseOctal (b :: r)

/-- `flipViews` made exact with the header blocks at hand: a changed header byte leaves the
    reader's view as it was when the block still passes the checksum gate, and makes `Next` fail
    there otherwise. (`hs` = the header block of each member, in order.) -/
def flipFromH (val : Nat) : Nat → List Bytes → List (Bytes × Bytes) → Nat → List Stream
  | off, h :: hs, x :: ms, pos =>
    if pos < off + 512 then
      if checksumOK (h.set (pos - off) val) then [⟨(x :: ms).map full, .eof⟩] else [⟨[], .err⟩]
    else if pos < off + slot x.2.length then flipFrom val off (x :: ms) pos
    else (flipFromH val (off + slot x.2.length) hs ms pos).map (consM (full x))
  | off, _, ms, pos => flipFrom val off ms pos

def flipViewsH (hs : List Bytes) (ms : List (Bytes × Bytes)) (pos val : Nat) : List Stream :=
  flipFromH val 0 hs ms pos

/-! ## specification vocabulary (used by the theorems, not by the engine) -/

/-- everything the members named `nm` carry, concatenated in archive order -/
def cat (nm : Bytes) (ms : List Member) : Bytes := (ms.filter (·.name = nm)).flatMap (·.data)

/-- the payloads of the meta.json members, in archive order -/
def metas (ms : List Member) : List Bytes := (ms.filter (·.name = nMeta)).map (·.data)

/-- decoding the payloads one after the other onto the same struct -/
def foldApply (apply : M → Bytes → Option M) : M → List Bytes → Option M
  | m, [] => some m
  | m, b :: bs =>
    match apply m b with
    | none => none
    | some m' => foldApply apply m' bs

/-- some member is named `nm` -/
def Has (nm : Bytes) (ms : List Member) : Prop := ∃ x ∈ ms, x.name = nm

/-- every member is complete and carries one of the three known names -/
def Clean (ms : List Member) : Prop :=
  ∀ x ∈ ms, x.short = false ∧ (x.name = nMeta ∨ x.name = nState ∨ x.name = nSums)

/-- the (digest, name) entries of a SHA256SUMS text, `none` when a line does not scan -/
def parseLines : List Bytes → Option (List (Bytes × Bytes))
  | [] => some []
  | l :: ls =>
    if 65536 ≤ l.length then none
    else match scanLine (dropCR l) with
      | none => none
      | some e =>
        match parseLines ls with
        | none => none
        | some es => some (e :: es)

def parseSums (sums : Bytes) : Option (List (Bytes × Bytes)) := parseLines (splitLines sums)

/-- SHA256SUMS scans, lists nothing but the two names with exactly the digests `hm`, `hs`,
    and lists both. -/
def SumsOK (hm hs sums : Bytes) : Prop :=
  ∃ es, parseSums sums = some es ∧ (∀ e ∈ es, e = (hm, nMeta) ∨ e = (hs, nState)) ∧
    (hm, nMeta) ∈ es ∧ (hs, nState) ∈ es

/-- what the theorems ask of a digest value: 32 bytes (`sha256.Size`) -/
def DigestOK (d : Bytes) : Prop := d.length = 32 ∧ ∀ b ∈ d, b < 256

/-- the member list with the data of member `i` replaced by `b'` -/
def setData (ms : List Member) (i : Nat) (b' : Bytes) : List Member :=
  match ms[i]? with
  | none => ms
  | some x => ms.set i { x with data := b' }

/-- data sizes of an archive given as (name, data) pairs -/
def sizesOf (ms : List (Bytes × Bytes)) : List Nat := ms.map (·.2.length)

/-- member `i` with byte `k` of its data set to `val` -/
def setByte (ms : List (Bytes × Bytes)) (i k val : Nat) : List (Bytes × Bytes) :=
  match ms[i]? with
  | none => ms
  | some x => ms.set i (x.1, x.2.set k val)

/-- consecutive regions from offset `a` to offset `b` -/
def Contig : Nat → List Region → Nat → Prop
  | a, [], b => a = b
  | a, r :: rs, b => r.start = a ∧ Contig (a + r.len) rs b

/-- SHA256SUMS is the last member and occurs only there (true of every archive `write` makes) -/
def SumsLast (ms : List (Bytes × Bytes)) : Prop :=
  ∃ pre x, ms = pre ++ [x] ∧ ∀ y ∈ pre, y.1 ≠ nSums

end CV.Tar
