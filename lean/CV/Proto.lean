/-
Line protocol shared by every engine driver (core-only Lean, no Mathlib).

One operation per line, tokens separated by single spaces. Strings travel as
  `=`            the empty string
  `=abc`         a "safe" string (only `[A-Za-z0-9_./:*@-]`), verbatim
  `xHEX`         any other byte string, hex encoded
Numbers are plain decimals. The Go side (`hx.EncS`) produces the same encoding.
-/
namespace CV

abbrev Bytes := List Nat

def hexVal (c : Char) : Option Nat :=
  if '0' ≤ c ∧ c ≤ '9' then some (c.toNat - '0'.toNat)
  else if 'a' ≤ c ∧ c ≤ 'f' then some (c.toNat - 'a'.toNat + 10)
  else if 'A' ≤ c ∧ c ≤ 'F' then some (c.toNat - 'A'.toNat + 10)
  else none

def unhex : List Char → Option Bytes
  | [] => some []
  | [_] => none
  | a :: b :: rest => do
      let x ← hexVal a
      let y ← hexVal b
      let r ← unhex rest
      pure ((x * 16 + y) :: r)

def hexDigit (n : Nat) : Char :=
  if n < 10 then Char.ofNat (n + '0'.toNat) else Char.ofNat (n - 10 + 'a'.toNat)

def hexOf (bs : Bytes) : String :=
  String.ofList (bs.flatMap fun b => [hexDigit (b / 16), hexDigit (b % 16)])

def safeChar (c : Char) : Bool :=
  c.isAlphanum || c == '_' || c == '.' || c == '/' || c == ':' || c == '*' || c == '@' || c == '-'

/-- decode a string token into raw bytes -/
def decB (tok : String) : Option Bytes :=
  match tok.toList with
  | '=' :: rest => some ((String.ofList rest).toUTF8.toList.map (·.toNat))
  | 'x' :: rest => unhex rest
  | _ => none

def bytesToString? (bs : Bytes) : Option String :=
  String.fromUTF8? (ByteArray.mk (bs.map (fun n => UInt8.ofNat n)).toArray)

/-- decode a string token into a Lean `String` (must be valid UTF-8) -/
def decS (tok : String) : Option String := do
  let bs ← decB tok
  bytesToString? bs

def encB (bs : Bytes) : String :=
  match bytesToString? bs with
  | some s => if s.toList.all safeChar then "=" ++ s else "x" ++ hexOf bs
  | none => "x" ++ hexOf bs

def encS (s : String) : String := encB (s.toUTF8.toList.map (·.toNat))

def encBool (b : Bool) : String := if b then "1" else "0"
def decBool (t : String) : Option Bool :=
  if t == "1" then some true else if t == "0" then some false else none

def unwords (l : List String) : String := " ".intercalate l

/-- Parse a comma separated list token; `-` is the empty list. -/
def decList (tok : String) : List String :=
  if tok == "-" then [] else tok.splitOn ","

def encList (l : List String) : String :=
  if l.isEmpty then "-" else ",".intercalate l

/-- A line-oriented engine: state, one output line per input line. -/
structure Engine where
  State : Type
  init : State
  step : State → List String → State × String

partial def runLoop (e : Engine) (hin : IO.FS.Stream) (hout : IO.FS.Stream) (s : e.State) : IO Unit := do
  let line ← hin.getLine
  if line.isEmpty then return ()
  let l := (line.dropEndWhile (fun c => c == '\n' || c == '\r')).toString
  if l.isEmpty || l.startsWith "#" then
    runLoop e hin hout s
  else
    let (s', out) := e.step s (l.splitOn " ")
    hout.putStrLn out
    runLoop e hin hout s'

def runEngine (e : Engine) : IO Unit := do
  let hin ← IO.getStdin
  let hout ← IO.getStdout
  runLoop e hin hout e.init
  hout.flush

end CV
