/-
CV.SnapG — snapshot / restore of the "plain" persisted tables (property C02, round 5).

Every restorer below stores the decoded row UNCHANGED and then max-merges (`indexUpdateMaxTxn`) zero or more rows of
the index table; the verbatim `IndexRestore` records come after all of them except the three peering tables:

  #   memdb table             persister (snapshot_ce.go)        restorer (state/*.go)            index writes of the restorer
  0   service-virtual-ips     persistVirtualIPs                 Restore.ServiceVirtualIP         updateVirtualIPMaxIndexes: "service-virtual-ips" (global
                                                                                                  and — same name in CE — per partition), for a peered
                                                                                                  service also "service-virtual-ips.imported" ← ModifyIndex
  1   free-virtual-ips        persistVirtualIPs                 Restore.FreeVirtualIP            —
  2   coordinates             persistNodes (one batch per row)   Restore.Coordinates              "coordinates" ← header LastIndex  (ensureCoordinateTxn(idx))
  3   sessions                persistSessions                   Restore.Session                  "sessions" ← ModifyIndex   (derived session_checks: CV.Snap)
  4-8 acl-tokens, -policies, -roles, -binding-rules, -auth-methods  aclXInsert                       table name ← ModifyIndex   (updateTableIndexEntries)
  9   kvs                     persistKVs                        Restore.KVS                      "kvs" ← ModifyIndex
  10  tombstones              persistTombstones                 Restore.Tombstone                "tombstones" ← Index
  11  prepared-queries        persistPreparedQueries            Restore.PreparedQuery            "prepared-queries" ← ModifyIndex
  12  autopilot-config        persistAutopilot                  Restore.Autopilot                —
  13  feature-gate-policy     persistFeatureGates (one record)  Restore.FeatureGates             —
  14  feature-gate-status                                                                         —
  15  connect-intentions      persistLegacyIntentions           Restore.LegacyIntention          "connect-intentions" ← ModifyIndex
  16  connect-ca-roots        persistConnectCA                  Restore.CARoot                   "connect-ca-roots" ← ModifyIndex
  17  connect-ca-builtin      persistConnectCAProviderState     Restore.CAProviderState          "connect-ca-builtin" ← ModifyIndex
  18  connect-ca-config       persistConnectCAConfig            Restore.CAConfig                 —   (a blank Provider is skipped: issue 4954; not modelled)
  19  config-entries          persistConfigEntries              Restore.ConfigEntry              "config-entries" ← ModifyIndex  (insertConfigEntryWithTxn;
                                                                                                  the derived gateway tables it rebuilds are CV.Store.Gw*)
  20  federation-states       persistFederationStates           Restore.FederationState          "federation-states" ← ModifyIndex
  21  system-metadata         persistSystemMetadata             Restore.SystemMetadataEntry      "system-metadata" ← ModifyIndex
      index                   persistIndex                      Restore.IndexRestore             VERBATIM
  22  peering                 persistPeerings                   Restore.Peering                  "peering" ← ModifyIndex (on top of the verbatim row)
  23  peering-trust-bundles   persistPeeringTrustBundles        Restore.PeeringTrustBundle       "peering-trust-bundles" ← ModifyIndex
  24  peering-secrets         persistPeeringSecrets             Restore.PeeringSecrets           —   (derived peering-secret-uuids: monitored)

memdb is ONE ordered map keyed by table / index / key; the model keeps all rows of these tables in one list ordered by
(table number, id-index key). Table numbers follow the persist order, so the list order IS the order of the record
stream. A row is key + opaque payload digest + create / modify index + one flag (`aux`: the virtual-IP row belongs to a
peered service). Nodes / services / checks (Restore.Registration) are the store model CV.Store.Snap.

Core-only Lean.
-/
import CV.Snap
namespace CV.SnapG
open CV CV.Snap

structure Row where
  tab : Nat
  key : Bytes
  payload : String
  create : Nat
  modify : Nat
  aux : Bool
deriving DecidableEq, Repr

/-- composite memdb key: table, then the id-index key -/
def gKey (r : Row) : Bytes := r.tab :: r.key

/-- what the restorer of a table does to the index table -/
inductive Eff
  | none
  | mm (key : Bytes)                 -- indexUpdateMaxTxn(row.ModifyIndex, key)
  | mmVip (key imported : Bytes)     -- updateVirtualIPMaxIndexes
  | mmLast (key : Bytes)             -- indexUpdateMaxTxn(header.LastIndex, key)
deriving DecidableEq, Repr

structure Desc where
  name : String       -- memdb table
  kind : String       -- name of its record type in the stream (as the harness names message types)
  eff : Eff
  late : Bool         -- persisted after the index table
deriving Repr

def mmT (t : String) : Eff := .mm (strB t)

/-- the reviewed table list, in persist order -/
def tables : List Desc :=
  [ ⟨"service-virtual-ips", "vips", .mmVip (strB "service-virtual-ips") (strB "service-virtual-ips.imported"), false⟩,
    ⟨"free-virtual-ips", "free-vips", .none, false⟩,
    ⟨"coordinates", "coordinates", .mmLast (strB "coordinates"), false⟩,
    ⟨"sessions", "sessions", mmT "sessions", false⟩,
    ⟨"acl-tokens", "acl-tokens", mmT "acl-tokens", false⟩,
    ⟨"acl-policies", "acl-policies", mmT "acl-policies", false⟩,
    ⟨"acl-roles", "acl-roles", mmT "acl-roles", false⟩,
    ⟨"acl-binding-rules", "acl-rules", mmT "acl-binding-rules", false⟩,
    ⟨"acl-auth-methods", "acl-methods", mmT "acl-auth-methods", false⟩,
    ⟨"kvs", "kvs", mmT "kvs", false⟩,
    ⟨"tombstones", "tombstones", mmT "tombstones", false⟩,
    ⟨"prepared-queries", "queries", mmT "prepared-queries", false⟩,
    ⟨"autopilot-config", "autopilot", .none, false⟩,
    ⟨"feature-gate-policy", "feature-gates", .none, false⟩,
    ⟨"feature-gate-status", "feature-gates", .none, false⟩,
    ⟨"connect-intentions", "intentions", mmT "connect-intentions", false⟩,
    ⟨"connect-ca-roots", "ca-roots", mmT "connect-ca-roots", false⟩,
    ⟨"connect-ca-builtin", "ca-provider", mmT "connect-ca-builtin", false⟩,
    ⟨"connect-ca-config", "ca-config", .none, false⟩,
    ⟨"config-entries", "config-entries", mmT "config-entries", false⟩,
    ⟨"federation-states", "federation-states", mmT "federation-states", false⟩,
    ⟨"system-metadata", "system-metadata", mmT "system-metadata", false⟩,
    ⟨"peering", "peering", mmT "peering", true⟩,
    ⟨"peering-trust-bundles", "bundles", mmT "peering-trust-bundles", true⟩,
    ⟨"peering-secrets", "peering-secrets", .none, true⟩ ]

def effOf (t : Nat) : Eff :=
  match tables[t]? with
  | some d => d.eff
  | none => .none

/-- the `indexUpdateMaxTxn(value, key)` calls the restorer of `r`'s table makes, in order -/
def writes (last : Nat) (r : Row) : List (Bytes × Nat) :=
  match effOf r.tab with
  | .none => []
  | .mm k => [(k, r.modify)]
  | .mmVip k ki => (k, r.modify) :: (k, r.modify) :: (if r.aux then [(ki, r.modify)] else [])
  | .mmLast k => [(k, last)]

def applyWrites (ws : List (Bytes × Nat)) (i : List IdxRow) : List IdxRow :=
  ws.foldl (fun a kv => maxMerge kv.1 kv.2 a) i

structure State where
  index : List IdxRow
  rows : List Row       -- tables persisted before the index table
  late : List Row       -- tables persisted after it
deriving DecidableEq, Repr

def State.empty : State := ⟨[], [], []⟩

inductive Rec
  | row (r : Row)
  | index (x : IdxRow)
  | late (r : Row)
deriving DecidableEq, Repr

/-- the registered restorers -/
def restorer (last : Nat) (st : State) : Rec → State
  | .row r => { st with rows := upsert gKey r st.rows, index := applyWrites (writes last r) st.index }
  | .index x => { st with index := upsert idxKey x st.index }
  | .late r => { st with late := upsert gKey r st.late, index := applyWrites (writes last r) st.index }

/-- header: max over the index rows keyed by a schema table (shared with CV.Snap) -/
def lastIndex (st : State) : Nat :=
  tableKeys.foldl (fun m k => match idxGet st.index k with | some v => max m v | none => m) 0

def fmt : Format State Rec :=
  { empty := State.empty
    lastIndex := lastIndex
    persisters := [fun st => st.rows.map Rec.row, fun st => st.index.map Rec.index, fun st => st.late.map Rec.late]
    restorer := restorer }

def snapshot (st : State) : Snapshot Rec := fmt.snapshot st
def restore (sn : Snapshot Rec) : State := fmt.restore sn

/-- record kind of a row in the stream -/
def kindOf (t : Nat) : String :=
  match tables[t]? with
  | some d => d.kind
  | none => "?"

def Rec.kind : Rec → String
  | .row r => kindOf r.tab
  | .index _ => "index"
  | .late r => kindOf r.tab

/-- the record kinds of a stream in order, consecutive repetitions dropped -/
def kindSeq : List Rec → List String
  | [] => []
  | r :: rs =>
      match kindSeq rs with
      | k :: rest => if k = r.kind then k :: rest else r.kind :: k :: rest
      | [] => [r.kind]

end CV.SnapG
