/-
CV.Snap — model of FSM snapshot / restore (property C02).

Generic part (mirrors agent/consul/fsm/snapshot.go `Persist`, fsm.go `Restore` / `ReadSnapshot`):
  a snapshot is a header (`LastIndex`) followed by the record streams of a fixed list of persisters,
  restore is ONE left fold of a per-record restorer over that stream, starting from an empty store.

Stand-alone instance (what can be modelled before the shared store model CV.Store exists): the part of the
state whose restore semantics is about the *index table*:

  table               persister (snapshot_ce.go)      restorer                       index-table effect of the restorer
  sessions            persistSessions                 Restore.Session                max-merge  "sessions"   ← ModifyIndex   (indexUpdateMaxTxn)
   └ session_checks   (derived, not persisted)        rebuilt by insertSessionTxn
  kvs                 persistKVs                      Restore.KVS                    max-merge  "kvs"        ← ModifyIndex
  tombstones          persistTombstones               Restore.Tombstone              max-merge  "tombstones" ← Index
  index               persistIndex                    Restore.IndexRestore           VERBATIM insert of the row (overrides everything before)
  peering             persistPeerings (AFTER index)   Restore.Peering                max-merge  "peering" ← ModifyIndex      (on top of the verbatim row)
  peering-trust-b.    persistPeeringTrustBundles      Restore.PeeringTrustBundle     max-merge  "peering-trust-bundles" ← ModifyIndex

(Until the repair of finding `snap:index:peering` the last two restorers plainly OVERWROTE the index row
with each row's ModifyIndex — `restorerBeforeFix` keeps that behaviour for the counterexample theorem.)

memdb tables are lists kept in id-index order: `upsert` is memdb's Insert (replace the row with the same
index key, else insert at its place). Row contents other than key / indexes / check links are an opaque
`payload` (the harness sends a digest of the whole row), because every modelled restorer stores the decoded
object unchanged. Header: `LastIndex` = max over the index rows keyed by a *schema table name*
(state_store.go `Snapshot`: `maxIndexTxn(tx, tables...)`) — rows such as "service.web" do not count.

Core-only Lean; no Mathlib.
-/
import CV.Proto
import CV.Generated.FactsSnap
namespace CV.Snap

/-! ## generic snapshot / restore -/

/-- A snapshot format over states `S` and records `R`. -/
structure Format (S R : Type) where
  /-- the freshly created store `Restore` starts from -/
  empty      : S
  /-- header `LastIndex` (snapshot.go `Persist`: `s.state.LastIndex()`) -/
  lastIndex  : S → Nat
  /-- the persisters in `persistCE` order; each writes its records -/
  persisters : List (S → List R)
  /-- the registered restorer for one record (`restorers[msg]`), given the header -/
  restorer   : Nat → S → R → S

structure Snapshot (R : Type) where
  last : Nat
  recs : List R

variable {S R : Type}

def Format.snapshot (f : Format S R) (s : S) : Snapshot R :=
  { last := f.lastIndex s, recs := f.persisters.flatMap (fun p => p s) }

/-- fsm.go `Restore`: new store, one restore transaction, every record through its restorer, commit. -/
def Format.restore (f : Format S R) (sn : Snapshot R) : S :=
  sn.recs.foldl (f.restorer sn.last) f.empty

/-! ## deterministic machines and cut points -/

/-- A deterministic state machine (the FSM: `Apply` is a function of state, index and command). -/
structure Machine (S C Res : Type) where
  step : S → C → S × Res

variable {C Res : Type}

def Machine.run (m : Machine S C Res) : S → List C → S × List Res
  | s, [] => (s, [])
  | s, c :: cs =>
      let (s', r) := m.step s c
      let (s'', rs) := m.run s' cs
      (s'', r :: rs)

/-! ## the instance -/

def lcByte (b : Nat) : Nat := if 65 ≤ b ∧ b ≤ 90 then b + 32 else b
/-- ASCII lower-casing (`strings.ToLower` on the names the generators emit) -/
def lc (k : Bytes) : Bytes := k.map lcByte

/-- ASCII string → bytes (table names) -/
def strB (s : String) : Bytes := s.toList.map (·.toNat)

structure IdxRow where
  key : Bytes
  value : Nat
deriving DecidableEq, Repr

structure KV where
  key : Bytes
  payload : String
  modify : Nat
deriving DecidableEq, Repr

structure Tomb where
  key : Bytes
  index : Nat
deriving DecidableEq, Repr

structure Sess where
  id : Bytes
  node : Bytes
  payload : String
  modify : Nat
  checks : List Bytes       -- `Session.CheckIDs()`: Checks ++ NodeChecks ++ ServiceChecks ids
deriving DecidableEq, Repr

structure SCheck where
  node : Bytes
  check : Bytes
  session : Bytes
deriving DecidableEq, Repr

/-- a row of a table persisted AFTER the index table (peering, peering-trust-bundles) -/
structure Late where
  id : Bytes
  payload : String
  modify : Nat
deriving DecidableEq, Repr

structure State where
  index : List IdxRow
  kvs : List KV
  tombs : List Tomb
  sessions : List Sess
  sessionChecks : List SCheck
  peerings : List Late
  bundles : List Late
deriving DecidableEq, Repr

def State.empty : State := ⟨[], [], [], [], [], [], []⟩

/-- memdb `Insert` on a table held in id-index order: replace the row with the same index key,
    otherwise insert at its place. -/
def upsert {α : Type} (k : α → Bytes) (x : α) : List α → List α
  | [] => [x]
  | y :: ys =>
      if k x < k y then x :: y :: ys
      else if k x = k y then x :: ys
      else y :: upsert k x ys

/-- index keys of the modelled tables -/
def idxKey (r : IdxRow) : Bytes := lc r.key          -- indexNameFromIndexEntry lower-cases
def kvKey (e : KV) : Bytes := e.key
def tombKey (t : Tomb) : Bytes := t.key
def sessKey (s : Sess) : Bytes := s.id
def lateKey (p : Late) : Bytes := p.id
/-- session_checks id index: node, check id, session (lower-cased node and check, NUL separated) -/
def scKey (c : SCheck) : Bytes := lc c.node ++ [0] ++ lc c.check ++ [0] ++ c.session

def idxGet (idx : List IdxRow) (key : Bytes) : Option Nat :=
  (idx.find? fun r => idxKey r = lc key).map (·.value)

/-- `indexUpdateMaxTxn`: write the row unless a stored value is at least as large. -/
def maxMerge (key : Bytes) (v : Nat) (idx : List IdxRow) : List IdxRow :=
  match idxGet idx key with
  | some cur => if v ≤ cur then idx else upsert idxKey ⟨key, v⟩ idx
  | none => upsert idxKey ⟨key, v⟩ idx

def kSessions : Bytes := [115, 101, 115, 115, 105, 111, 110, 115]
def kKvs : Bytes := [107, 118, 115]
def kTombstones : Bytes := [116, 111, 109, 98, 115, 116, 111, 110, 101, 115]
def kPeering : Bytes := [112, 101, 101, 114, 105, 110, 103]
def kBundles : Bytes :=
  [112, 101, 101, 114, 105, 110, 103, 45, 116, 114, 117, 115, 116, 45, 98, 117, 110, 100, 108, 101, 115]

inductive Rec
  | session (s : Sess)
  | kv (e : KV)
  | tomb (t : Tomb)
  | index (r : IdxRow)
  | peering (p : Late)
  | bundle (p : Late)
deriving DecidableEq, Repr

def checkRows (s : Sess) : List SCheck := s.checks.map fun c => ⟨s.node, c, s.id⟩

/-- the registered restorers of the modelled message types (the header is not consulted by any of them) -/
def restorer (_last : Nat) (st : State) : Rec → State
  | .session s =>   -- Restore.Session → insertSessionTxn(tx, sess, sess.ModifyIndex, updateMax = true)
      { st with sessions := upsert sessKey s st.sessions
                sessionChecks := (checkRows s).foldl (fun acc c => upsert scKey c acc) st.sessionChecks
                index := maxMerge kSessions s.modify st.index }
  | .kv e =>        -- Restore.KVS → insertKVTxn(tx, entry, updateMax = true)
      { st with kvs := upsert kvKey e st.kvs, index := maxMerge kKvs e.modify st.index }
  | .tomb t =>      -- Restore.Tombstone → Graveyard.RestoreTxn → insertTombstoneWithTxn(updateMax = true)
      { st with tombs := upsert tombKey t st.tombs, index := maxMerge kTombstones t.index st.index }
  | .index r =>     -- Restore.IndexRestore: tx.Insert(tableIndex, idx) — verbatim
      { st with index := upsert idxKey r st.index }
  | .peering p =>   -- Restore.Peering: insert + indexUpdateMaxTxn(p.ModifyIndex, "peering")
      { st with peerings := upsert lateKey p st.peerings, index := maxMerge kPeering p.modify st.index }
  | .bundle p =>    -- Restore.PeeringTrustBundle: insert + indexUpdateMaxTxn(ptb.ModifyIndex, "peering-trust-bundles")
      { st with bundles := upsert lateKey p st.bundles, index := maxMerge kBundles p.modify st.index }

/-- the restorers as they were before the repair of `snap:index:peering`: `updatePeeringTableIndexes` /
    `updatePeeringTrustBundlesTableIndexes` = plain `tx.Insert(tableIndex, {table, row.ModifyIndex})` -/
def restorerBeforeFix (last : Nat) (st : State) : Rec → State
  | .peering p =>
      { st with peerings := upsert lateKey p st.peerings, index := upsert idxKey ⟨kPeering, p.modify⟩ st.index }
  | .bundle p =>
      { st with bundles := upsert lateKey p st.bundles, index := upsert idxKey ⟨kBundles, p.modify⟩ st.index }
  | r => restorer last st r

/-- schema table names as index keys (from the regenerated facts: state/schema.go `newDBSchema`) -/
def tableKeys : List Bytes := CV.Facts.Snap.schemaTables.map strB

/-- `Store.Snapshot`: `maxIndexTxn(tx, tables...)` — one lookup per schema table -/
def lastIndex (st : State) : Nat :=
  tableKeys.foldl (fun m k => match idxGet st.index k with | some v => max m v | none => m) 0

/-- the persisters of the modelled tables, in `persistCE` order -/
def persisters : List (State → List Rec) :=
  [ fun st => st.sessions.map Rec.session,     -- persistSessions
    fun st => st.kvs.map Rec.kv,               -- persistKVs
    fun st => st.tombs.map Rec.tomb,           -- persistTombstones
    fun st => st.index.map Rec.index,          -- persistIndex
    fun st => st.peerings.map Rec.peering,     -- persistPeerings
    fun st => st.bundles.map Rec.bundle ]      -- persistPeeringTrustBundles

/-- names of the modelled persisters in the order used above (compared with the regenerated facts) -/
def persisterNames : List String :=
  ["persistSessions", "persistKVs", "persistTombstones", "persistIndex", "persistPeerings", "persistPeeringTrustBundles"]

def fmt : Format State Rec :=
  { empty := State.empty, lastIndex := lastIndex, persisters := persisters, restorer := restorer }

def snapshot (st : State) : Snapshot Rec := fmt.snapshot st
def restore (sn : Snapshot Rec) : State := fmt.restore sn

def fmtBeforeFix : Format State Rec := { fmt with restorer := restorerBeforeFix }
def restoreBeforeFix (sn : Snapshot Rec) : State := fmtBeforeFix.restore sn

def kNodes : Bytes := [110, 111, 100, 101, 115]
def kServices : Bytes := [115, 101, 114, 118, 105, 99, 101, 115]

/-- `maxIndexTxn` of one key: a missing row counts as 0 -/
def idxOr0 (i : List IdxRow) (k : Bytes) : Nat :=
  match idxGet i k with
  | some v => v
  | none => 0

/-- The derived usage row "kvs" = (Count, Index) as `txn.Commit → updateUsage` writes it when the restore
    transaction commits (usage.go): every restored key is a `Created` change, so Count = number of keys;
    `changes.Index == 0` for the restore transaction, so Index = maxIndexTxn(nodes, services, kvs) read
    AFTER IndexRestore; no key ⇒ no change ⇒ no row. (Online the row carries the index of the last
    transaction that created or deleted a key, and survives with Count 0: known findings
    snap:usage:Index:restore-uses-max-of-table-indexes, snap:usage:zero-count-row-not-recreated.) -/
def usageKvsAfterRestore (r : State) : Option (Nat × Nat) :=
  if r.kvs = [] then none
  else some (r.kvs.length, max (idxOr0 r.index kNodes) (max (idxOr0 r.index kServices) (idxOr0 r.index kKvs)))

/-- What a restorer does to the index table (reviewed by reading agent/consul/state). -/
inductive IdxEffect
  | none        -- no index row written
  | maxMerge    -- indexUpdateMaxTxn(row.ModifyIndex, table)
  | rebuild     -- runs the write path (ensureRegistrationTxn / insertConfigEntryWithTxn / …): many index rows, computed
  | verbatim    -- IndexRestore: the row itself
  | overwrite   -- tx.Insert(tableIndex, {table, row.ModifyIndex}) — last row wins
deriving DecidableEq, Repr

/-- kind name of a record, as the harness names the message types of the real stream -/
def Rec.kind : Rec → String
  | .session _ => "sessions"
  | .kv _ => "kvs"
  | .tomb _ => "tombstones"
  | .index _ => "index"
  | .peering _ => "peering"
  | .bundle _ => "bundles"

/-- run-length encoding of the record kinds of a stream -/
def kindRuns : List Rec → List (String × Nat)
  | [] => []
  | r :: rs =>
      match kindRuns rs with
      | (k, n) :: rest => if k = r.kind then (k, n + 1) :: rest else (r.kind, 1) :: (k, n) :: rest
      | [] => [(r.kind, 1)]

end CV.Snap
