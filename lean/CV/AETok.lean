/-
CV.AETok — the requests a sync sends, as the servers see them (property C16).

`CV.AE` models what a sync does to the local state and to the catalog; this module adds the
*trace* of the RPCs `SyncFull` / `SyncChanges` issue — for each call its kind, its subject, the
ACL token it carries (`aclTokenForServiceSync` / `aclTokenForCheckSync` with their fall-backs for
registrations, the agent token for node info, the two reads and every deregistration), the
`SkipNodeUpdate` flag, the checks that ride on a service registration and the service pulled in
by a check registration. The trace is computed by re-running the loops of `CV.AE` (`svcStep` /
`chkStep`), so it describes the same run.

It also records which model field stands for each field of the Go comparison functions
(`NodeService.IsSame`, `HealthCheck.IsSame`, the node-info test of `updateSyncState`) and the arms
of the switches the model mirrors; `CV.Props.C16` proves these tables equal to the facts
regenerated from the Go source (`CV.Generated.FactsC16`).
Core-only Lean.
-/
import CV.AE
namespace CV.AE

/-- one RPC of a sync. `kind`: `rs` Catalog.NodeServiceList, `rc` Health.NodeChecks, `n` node info,
    `sreg`/`creg` Catalog.Register of a service / a check, `sdel`/`cdel` Catalog.Deregister. -/
structure Call where
  kind  : String
  id    : Id
  tok   : String
  skip  : Bool := false        -- RegisterRequest.SkipNodeUpdate
  piggy : List Id := []        -- checks riding on a service registration
  withSvc : Id := ""           -- service pulled in by a check registration ("" = none)
deriving DecidableEq, Repr

/-- the call `svcStep` issues for `id` in state `s` (same case split, same order of the arms) -/
def svcCall (cfg : Cfg) (s : St) (id : Id) : Option Call :=
  match s.l.svcs.get? id with
  | none => none
  | some (.ghost _) => if id = "" then none else some { kind := "sdel", id := id, tok := cfg.agentTok }
  | some (.ent _ _ _ _ true) => if id = "" then none else some { kind := "sdel", id := id, tok := cfg.agentTok }
  | some (.ent _ tok loc false false) =>
    some { kind := "sreg", id := id, tok := effTok cfg tok loc, skip := s.l.nodeInSync
           piggy := (piggy cfg s.l id (effTok cfg tok loc)).map (·.1) }
  | some (.ent _ _ _ true false) => none

/-- the call `chkStep` issues for `k` in state `s` -/
def chkCall (cfg : Cfg) (s : St) (k : Id) : Option Call :=
  match s.l.chks.get? k with
  | none => none
  | some (.ghost _) => if k = "" then none else some { kind := "cdel", id := k, tok := cfg.agentTok }
  | some (.ent _ _ _ _ true) => if k = "" then none else some { kind := "cdel", id := k, tok := cfg.agentTok }
  | some (.ent d tok loc false false) =>
    some { kind := "creg", id := k, tok := effTok cfg tok loc, skip := s.l.nodeInSync
           withSvc := match checkSvc s.l d.sid with | some (sid, _) => sid | none => "" }
  | some (.ent _ _ _ true false) => none

def svcTrace (cfg : Cfg) (f : Faults) : St → List Id → List Call
  | _, [] => []
  | s, id :: rest => (svcCall cfg s id).toList ++ svcTrace cfg f (svcStep cfg f s id) rest

def chkTrace (cfg : Cfg) (f : Faults) : St → List Id → List Call
  | _, [] => []
  | s, k :: rest => (chkCall cfg s k).toList ++ chkTrace cfg f (chkStep cfg f s k) rest

def restTrace (cfg : Cfg) (ord : Order) (f : Faults) (s : St) : List Call :=
  svcTrace cfg f s (visit ord.svcs s.l.svcs.keys) ++
  chkTrace cfg f (svcLoop cfg ord f s) (visit ord.chks (svcLoop cfg ord f s).l.chks.keys)

def nodeCall (cfg : Cfg) : Call := { kind := "n", id := "", tok := cfg.agentTok }

/-- the calls of `SyncChanges` -/
def syncChangesTrace (cfg : Cfg) (ord : Order) (f : Faults) (l : Local) (c : Cat) : List Call :=
  if l.nodeInSync then restTrace cfg ord f ⟨l, c, true⟩
  else nodeCall cfg ::
    (if (syncNode cfg f ⟨l, c, true⟩).2 then restTrace cfg ord f (syncNode cfg f ⟨l, c, true⟩).1 else [])

/-- the calls of `SyncFull`: the two reads with the agent token (the second only when the first
    succeeded), then `SyncChanges` when both succeeded -/
def syncFullTrace (cfg : Cfg) (ord : Order) (f : Faults) (l : Local) (c : Cat) : List Call :=
  { kind := "rs", id := "", tok := cfg.agentTok } ::
  (if f.readSvcs then
    { kind := "rc", id := "", tok := cfg.agentTok } ::
      (if f.readChks then syncChangesTrace cfg ord f (updateSyncState cfg l c) c else [])
   else [])

/-- `AddServiceWithChecks` as the agent calls it: `addServiceLocked` uses the service name as the
    id when the id was omitted -/
def addSvcN (l : Local) (id : Id) (d : SvcDef) (tok : String) (isLocal : Bool) (cs : List (Id × ChkDef)) : Res × Local :=
  addSvc l (if id = "" then d.name else id) d tok isLocal cs

/-! ### which model field stands for which compared Go field -/

/-- `(*NodeService).IsSame`: Go field ↦ model field (`key` = the map key, `const` = held constant:
    single partition / no peering) -/
def svcSameFields : List (String × String) :=
  [("ID", "key"), ("Service", "name"), ("Tags", "tags"), ("Address", "port"), ("Port", "port"),
   ("Ports", "port"), ("SocketPath", "port"), ("TaggedAddresses", "ta"), ("Weights", "port"),
   ("Meta", "port"), ("Locality", "port"), ("EnableTagOverride", "eto"), ("Kind", "port"),
   ("Proxy", "port"), ("Connect", "port"), ("PeerName", "const"), ("EnterpriseMeta", "const")]

/-- `(*HealthCheck).IsSame` -/
def chkSameFields : List (String × String) :=
  [("Node", "const"), ("CheckID", "key"), ("Name", "rest"), ("Status", "status"), ("Notes", "rest"),
   ("Output", "status"), ("ServiceID", "sid"), ("ServiceName", "sname"), ("ServiceTags", "stags"),
   ("Definition", "rest"), ("PeerName", "const"), ("EnterpriseMeta", "const")]

/-- the node-level fields `updateSyncState` compares (all folded into `Cfg.nodeVal` / `Cat.node`);
    the node's Address is NOT among them -/
def nodeSameFields : List String := ["ID", "TaggedAddresses", "Locality", "Meta"]

/-- the arms of the two switches of `SyncChanges`, in source order: a record pending removal is
    deregistered whatever its in-sync flag says (`svcStep` / `chkStep` match in this order) -/
def syncChangesArms : List String := ["s.Deleted", "!s.InSync", "default", "c.Deleted", "!c.InSync", "default"]

/-- the arms of the outcome switch of the five RPC helpers: success (for a deregistration also
    "Unknown service/check": nothing was there), ACL refusal (marked in sync on purpose), any other
    error (flags untouched) -/
def outcomeArms : List (String × List String) :=
  [("deleteService", ["err == nil || strings.Contains(err.Error(), \"Unknown service\")",
                      "acl.IsErrPermissionDenied(err)", "acl.IsErrNotFound(err)", "default"]),
   ("deleteCheck", ["err == nil || strings.Contains(err.Error(), \"Unknown check\")",
                    "acl.IsErrPermissionDenied(err)", "acl.IsErrNotFound(err)", "default"]),
   ("syncService", ["err == nil", "acl.IsErrPermissionDenied(err)", "acl.IsErrNotFound(err)", "default"]),
   ("syncCheck", ["err == nil", "acl.IsErrPermissionDenied(err)", "acl.IsErrNotFound(err)", "default"]),
   ("syncNodeInfo", ["err == nil", "acl.IsErrPermissionDenied(err)", "acl.IsErrNotFound(err)", "default"])]

end CV.AE
