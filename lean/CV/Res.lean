/-
CV.Res — model of the generic resource store (property C18).

Mirrors, as the code is,
  * internal/storage/inmem/schema.go     radix keys (`idKey`, `ownerKey`), `query.indexPrefix`, `query.matches`
  * internal/storage/inmem/store.go      `Read`, `WriteCAS`, `DeleteCAS`, `List`, `ListByOwner`
  * internal/storage/inmem/event_index.go  event index starts at 2, +1 per committed write/delete
  * internal/storage/inmem/backend.go    version := decimal of an atomic counter, taken before the store call
  * internal/storage/raft/backend.go     `Apply`: version := decimal Raft index; retired types are skipped
  * internal/storage/inmem/snapshot.go   `Snapshot` (rows in id-key order), `Restore` (fresh DB, index restarts,
                                         snapshot caches evicted, subscriptions force-closed)
  * internal/storage/inmem/watch.go      `WatchList` (subject choice), `watchSnapshot`, `publishEvent`,
                                         `Watch.Next` / `nextEvent` (incl. the index guard exactly as written)
  * agent/consul/stream                  the part of `EventPublisher` the store relies on: FIFO publish channel
                                         drained by one goroutine (`pump`), per-subject topic buffers with
                                         ref-counts, per-subject snapshot cache, splice at the buffer head.
The publisher goroutine is an explicit operation (`pump`), so a sequence of model operations *is* an
interleaving of store calls, watcher calls and publisher dispatches.

Strings whose byte order / prefixes matter (type, tenancy, name, uid) are `Bytes`; versions are `String`
(only compared for equality). memdb is modelled as a list of rows kept in ascending id-key order.
Core-only Lean; no Mathlib.
-/
import CV.Proto
namespace CV.Res

structure RType where
  group : Bytes
  gv    : Bytes      -- GroupVersion: not part of any storage key
  kind  : Bytes
deriving DecidableEq, Repr, Inhabited

structure Ten where
  part : Bytes
  ns   : Bytes       -- (peer tenancy is ignored by the indexers: "TODO(peering/v2)")
deriving DecidableEq, Repr, Inhabited

structure RID where
  typ  : RType
  ten  : Ten
  name : Bytes
  uid  : Bytes
deriving DecidableEq, Repr, Inhabited

structure Res where
  id      : RID
  owner   : Option RID
  version : String
  data    : Nat       -- abstract payload
deriving DecidableEq, Repr, Inhabited

/-! ### radix keys (schema.go) -/

/-- `indexBuilder.String`: the segment followed by the NUL separator -/
def seg (b : Bytes) : Bytes := b ++ [0]

/-- `indexFromID(id, false)` -/
def idKey (id : RID) : Bytes :=
  seg id.typ.group ++ seg id.typ.kind ++ seg id.ten.part ++ seg id.ten.ns ++ seg id.name

/-- `indexFromID(id, true)` -/
def ownerKey (id : RID) : Bytes := idKey id ++ seg id.uid

abbrev Rows := List Res

/-- `tx.First(resources, "id", id)` — exact match on the unique id index -/
def lookup (k : Bytes) : Rows → Option Res
  | [] => none
  | x :: xs => if idKey x.id = k then some x else lookup k xs

/-- `tx.Insert(resources, res)` — replace the row with the same id key, else insert in key order -/
def upsert (r : Res) : Rows → Rows
  | [] => [r]
  | x :: xs =>
    if idKey r.id = idKey x.id then r :: xs
    else if idKey r.id < idKey x.id then r :: x :: xs
    else x :: upsert r xs

/-- `tx.Delete(resources, id)` -/
def remove (k : Bytes) (rows : Rows) : Rows := rows.filter fun x => idKey x.id ≠ k

def star : Bytes := [42]     -- storage.Wildcard = "*"

structure Query where
  group : Bytes
  kind  : Bytes
  part  : Bytes
  ns    : Bytes
  pfx   : Bytes
deriving DecidableEq, Repr, Inhabited

/-- `query.indexPrefix` -/
def Query.indexPrefix (q : Query) : Bytes :=
  let b := seg q.group ++ seg q.kind
  if q.part = star then b
  else if q.ns = star then b ++ seg q.part
  else b ++ seg q.part ++ seg q.ns ++ q.pfx

/-- `query.matches` -/
def Query.matches (q : Query) (r : Res) : Bool :=
  (q.part = star || r.id.ten.part = q.part) &&
  (q.ns = star || r.id.ten.ns = q.ns) &&
  (q.pfx.isEmpty || q.pfx.isPrefixOf r.id.name)

/-- `listTxn`: radix prefix scan (key order), then `matches` -/
def list (rows : Rows) (q : Query) : Rows :=
  rows.filter fun r => q.indexPrefix.isPrefixOf (idKey r.id) && q.matches r

/-- `ListByOwner`: memdb `Get` on the non-unique owner index is a prefix seek over
    `ownerKey(owner) ++ idKey(row)`; rows come out in that order, which for equal owner keys is id-key order. -/
def listByOwner (rows : Rows) (owner : RID) : Rows :=
  rows.filter fun r =>
    match r.owner with
    | none => false
    | some o => (ownerKey owner).isPrefixOf (ownerKey o ++ idKey r.id)

/-! ### the memdb database: resources table + the event-index metadata row -/

structure DB where
  rows  : Rows
  evIdx : Nat        -- `currentEventIndex`: 2 while the metadata row is absent
deriving DecidableEq, Repr

def DB.empty : DB := { rows := [], evIdx := 2 }

inductive WEv where
  | upsert (r : Res)
  | delete (r : Res)
  | eos
deriving DecidableEq, Repr

structure Ev where
  idx : Nat
  ev  : WEv
deriving DecidableEq, Repr

def WEv.res? : WEv → Option Res
  | .upsert r => some r
  | .delete r => some r
  | .eos => none

inductive WRes where
  | ok | cas | wrongUid
deriving DecidableEq, Repr

inductive ReadRes where
  | found (r : Res)
  | notFound
  | gvMismatch (stored : Res)
deriving DecidableEq, Repr

/-- `Store.Read` -/
def DB.read (db : DB) (id : RID) : ReadRes :=
  match lookup (idKey id) db.rows with
  | none => .notFound
  | some r =>
    if id.uid ≠ [] ∧ r.id.uid ≠ id.uid then .notFound
    else if id.typ.gv ≠ r.id.typ.gv then .gvMismatch r
    else .found r

/-- `Store.WriteCAS(res, vsn)`: `res.version` is the version to store, `vsn` the one presented.
    Returns the new database, the result and the event handed to `publishEvent` (if committed). -/
def DB.writeCAS (db : DB) (res : Res) (vsn : String) : DB × WRes × Option Ev :=
  let commit : DB × WRes × Option Ev :=
    ({ rows := upsert res db.rows, evIdx := db.evIdx + 1 }, .ok, some ⟨db.evIdx + 1, .upsert res⟩)
  match lookup (idKey res.id) db.rows with
  | none => if vsn ≠ "" then (db, .cas, none) else commit
  | some ex =>
    if ex.id.uid ≠ res.id.uid then (db, .wrongUid, none)
    else if ex.version ≠ vsn then (db, .cas, none)
    else commit

/-- `Store.DeleteCAS(id, vsn)`; `true` = nil error, `false` = ErrCASFailure. -/
def DB.deleteCAS (db : DB) (id : RID) (vsn : String) : DB × Bool × Option Ev :=
  match lookup (idKey id) db.rows with
  | none => (db, true, none)
  | some ex =>
    if id.uid ≠ ex.id.uid then (db, true, none)
    else if vsn ≠ ex.version then (db, false, none)
    else ({ rows := remove (idKey id) db.rows, evIdx := db.evIdx + 1 }, true, some ⟨db.evIdx + 1, .delete ex⟩)

/-- `Restoration.Apply` per resource into a fresh DB, then `Commit`. -/
def restoreRows (rs : List Res) : Rows := rs.foldl (fun acc r => upsert r acc) []

/-! ### the event publisher and watches -/

def wildSubj (g k : Bytes) : Bytes := g ++ [0] ++ k ++ [0] ++ star
def tenSubj (g k p n : Bytes) : Bytes := g ++ [0] ++ k ++ [0] ++ p ++ [0] ++ n

inductive WState where
  | opened | forceClosed | unsub
deriving DecidableEq, Repr

structure Watch where
  q        : Query
  subj     : Bytes
  inbox    : List Ev               -- `w.events`
  snap     : Option (List Ev)      -- snapshot batch not yet fetched from the subscription
  pos      : Nat                   -- next batch of the subject's topic buffer
  st       : WState
  released : Bool                  -- `freeBuf` ran (sync.Once)
  lastIdx  : Nat := 0              -- only used by `nextLive` (a repaired guard that remembers the last index)
  -- history variables (never read by the operations; used to state the theorems)
  gD         : Nat := 0            -- number of dispatched events when the snapshot it got was taken
  gP         : Nat := 0            -- number of committed events when the snapshot it got was taken
  gSq        : Query := default    -- the query that snapshot was listed with
  gDelivered : List WEv := []      -- everything `Next` has returned so far
deriving DecidableEq, Repr

/-- a cached snapshot: its batch and the buffer position it was spliced at -/
structure Cache where
  batch : List Ev
  pos   : Nat
  gD    : Nat := 0                 -- history variables, see `Watch`
  gP    : Nat := 0
  gSq   : Query := default
deriving DecidableEq, Repr

/-- one (topic, subject) entry of `topicBuffers` + `snapCache` -/
structure Sub where
  key   : Bytes
  buf   : List (List Ev)           -- batches appended since the buffer was created
  refs  : Nat
  cache : Option Cache
deriving DecidableEq, Repr

structure World where
  db      : DB
  ctr     : Nat                    -- inmem.Backend.vsn
  queue   : List Ev                -- publishCh: committed, not yet dispatched
  subs    : List Sub
  watches : List Watch
  log     : List Ev                -- history variable (never read by the operations): all committed events
deriving DecidableEq, Repr

def World.init : World := { db := DB.empty, ctr := 0, queue := [], subs := [], watches := [], log := [] }

def findSub (k : Bytes) : List Sub → Option Sub
  | [] => none
  | s :: ss => if s.key = k then some s else findSub k ss

def setSub (s : Sub) : List Sub → List Sub
  | [] => [s]
  | x :: xs => if x.key = s.key then s :: xs else x :: setSub s xs

def dropSub (k : Bytes) (ss : List Sub) : List Sub := ss.filter fun s => s.key ≠ k

def World.commit (w : World) (db' : DB) (e : Option Ev) : World :=
  match e with
  | none => { w with db := db' }
  | some e => { w with db := db', queue := w.queue ++ [e], log := w.log ++ [e] }

/-- `Store.WriteCAS` + `publishEvent` (send on publishCh) -/
def World.storeWrite (w : World) (res : Res) (vsn : String) : World × WRes :=
  let (db', r, e) := w.db.writeCAS res vsn
  (w.commit db' e, r)

/-- `inmem.Backend.WriteCAS`: the counter is bumped before (and regardless of) the store call. -/
def World.backendWrite (w : World) (res : Res) : World × WRes × Res :=
  let stored := { res with version := toString (w.ctr + 1) }
  let (w', r) := ({ w with ctr := w.ctr + 1 }).storeWrite stored res.version
  (w', r, stored)

def World.delete (w : World) (id : RID) (vsn : String) : World × Bool :=
  let (db', ok, e) := w.db.deleteCAS id vsn
  (w.commit db' e, ok)

/-- `isRetiredType` (raft/backend.go) -/
def isRetired (t : RType) : Bool :=
  let s := fun (x : String) => x.toUTF8.toList.map (·.toNat)
  if t.gv = s "v2" then t.group = s "hcp"
  else if t.gv = s "v2beta1" then
    t.group = s "auth" || t.group = s "catalog" || t.group = s "mesh" || t.group = s "multicluster" || t.group = s "tenancy"
  else false

/-- `raft.Backend.Apply` of a write log entry at Raft index `idx` -/
def World.raftWrite (w : World) (idx : Nat) (res : Res) : World × WRes × Res :=
  let stored := { res with version := toString idx }
  if isRetired res.id.typ then (w, .ok, stored)
  else
    let (w', r) := w.storeWrite stored res.version
    (w', r, stored)

def World.raftDelete (w : World) (id : RID) (vsn : String) : World × Bool :=
  if isRetired id.typ then (w, true) else w.delete id vsn

/-- the subject a `WatchList` subscribes to, and the query its snapshot handler lists with -/
def Query.subject (q : Query) : Bytes × Query :=
  if q.part = star ∨ q.ns = star then
    (wildSubj q.group q.kind, { q with part := star, ns := star, pfx := [] })
  else
    (tenSubj q.group q.kind q.part q.ns, { q with pfx := [] })

/-- `watchSnapshot`: upserts of everything listed + EndOfSnapshot, all at the current event index -/
def snapshotBatch (db : DB) (sq : Query) : List Ev :=
  (list db.rows sq).map (fun r => ⟨db.evIdx, .upsert r⟩) ++ [⟨db.evIdx, .eos⟩]

/-- What a snapshot handler would build if it took the listing in one memdb transaction (`listDb`) and read
    the event index in another one (`idxDb`). `watchSnapshot` as written uses ONE transaction for both, i.e.
    `snapshotBatch db = snapshotBatchTwoTxn db db`; every statement about snapshots (`snapshot_is_listing`,
    `watch_stream_faithful`, …) rests on that. -/
def snapshotBatchTwoTxn (listDb idxDb : DB) (sq : Query) : List Ev :=
  (list listDb.rows sq).map (fun r => ⟨idxDb.evIdx, .upsert r⟩) ++ [⟨idxDb.evIdx, .eos⟩]

/-- `eventSnapshot.spliceFromTopicBuffer` started at the buffer head: the head item itself is kept when
    its index is greater than the snapshot index (possible only after a restore reset the index);
    otherwise the subscription continues with whatever is appended later. -/
def splicePos (buf : List (List Ev)) (snapIdx : Nat) : Nat :=
  match buf.getLast? with
  | some (e :: _) => if e.idx > snapIdx then buf.length - 1 else buf.length
  | _ => buf.length

/-- `Store.WatchList` → `EventPublisher.Subscribe` (request index 0). Returns the handle. -/
def World.watchOpen (w : World) (q : Query) : World × Nat :=
  let (key, sq) := q.subject
  let sub := match findSub key w.subs with
    | some s => s
    | none => { key := key, buf := [], refs := 0, cache := none }
  let c : Cache := match sub.cache with
    | some c => c
    | none => { batch := snapshotBatch w.db sq, pos := splicePos sub.buf w.db.evIdx,
                gD := w.log.length - w.queue.length, gP := w.log.length, gSq := sq }
  let sub' := { sub with refs := sub.refs + 1, cache := some c }
  let watch : Watch := { q := q, subj := key, inbox := [], snap := some c.batch, pos := c.pos, st := .opened,
                         released := false, gD := c.gD, gP := c.gP, gSq := c.gSq }
  ({ w with subs := setSub sub' w.subs, watches := w.watches ++ [watch] }, w.watches.length)

/-- the two subjects `publishEvent` addresses an event to -/
def evSubjects (e : Ev) : List Bytes :=
  match e.ev.res? with
  | none => []
  | some r => [wildSubj r.id.typ.group r.id.typ.kind,
               tenSubj r.id.typ.group r.id.typ.kind r.id.ten.part r.id.ten.ns]

/-- `EventPublisher.publishEvent` for one item of publishCh: events are grouped by subject string and
    appended as one batch to each subject buffer that exists. -/
def hitsOf (key : Bytes) (e : Ev) : List Ev := ((evSubjects e).filter (· = key)).map fun _ => e

def dispatch (e : Ev) (s : Sub) : Sub :=
  if (hitsOf s.key e).isEmpty then s else { s with buf := s.buf ++ [hitsOf s.key e] }

/-- one iteration of `EventPublisher.Run` -/
def World.pump (w : World) : World × Bool :=
  match w.queue with
  | [] => (w, false)
  | e :: q => ({ w with queue := q, subs := w.subs.map (dispatch e) }, true)

/-- `Watch.Next`'s filter: EndOfSnapshot is always returned, others iff `query.matches` -/
def delivers (q : Query) (e : Ev) : Bool :=
  match e.ev.res? with
  | none => true
  | some r => q.matches r

/-- first event of the list that `Watch.Next` returns, and what stays in `w.events` -/
def takeFirst (q : Query) : List Ev → Option (Ev × List Ev)
  | [] => none
  | e :: es => if delivers q e then some (e, es) else takeFirst q es

/-- `nextEvent`'s guard `if e.Index <= idx { continue }` on the batch returned by `sub.Next`.
    `idx` is a local variable that is zero whenever the guard is evaluated (the function returns
    right after assigning it), so the model passes 0 — exactly what the code computes. -/
def guardSkips (idx : Nat) (b : List Ev) : Bool :=
  match b with
  | [] => true                 -- `sub.Next` never returns an empty batch; it skips them
  | e :: _ => e.idx ≤ idx

/-- walk the batches the subscription can return without blocking: result is the delivered event,
    the rest of its batch (→ `w.events`) and the number of batches consumed. -/
def nextFromBatches (q : Query) : List (List Ev) → Nat → Option (Ev × List Ev × Nat)
  | [], _ => none
  | b :: bs, n =>
    if guardSkips 0 b then nextFromBatches q bs (n + 1)
    else match takeFirst q b with
      | some (e, rest) => some (e, rest, n + 1)
      | none => nextFromBatches q bs (n + 1)

inductive NextRes where
  | ev (e : WEv)
  | closed          -- storage.ErrWatchClosed
  | unsubErr        -- "subscription was closed by unsubscribe"
  | block           -- `Next` would block (nothing deliverable yet)
deriving DecidableEq, Repr

def Watch.next (w : Watch) (buf : List (List Ev)) : Watch × NextRes :=
  match takeFirst w.q w.inbox with
  | some (e, rest) => ({ w with inbox := rest, gDelivered := w.gDelivered ++ [e.ev] }, .ev e.ev)
  | none =>
    let w := { w with inbox := [] }
    match w.st with
    | .forceClosed => (w, .closed)
    | .unsub => (w, .unsubErr)
    | .opened =>
      let pending := (match w.snap with | some b => [b] | none => []) ++ buf.drop w.pos
      let fromSnap := match w.snap with | some _ => 1 | none => 0
      match nextFromBatches w.q pending 0 with
      | some (e, rest, n) =>
        ({ w with inbox := rest, snap := none, pos := w.pos + (n - fromSnap), gDelivered := w.gDelivered ++ [e.ev] }, .ev e.ev)
      | none =>
        ({ w with snap := none, pos := w.pos + (pending.length - fromSnap) }, .block)

/-! #### the repaired variant of the index guard

`nextEvent` as written evaluates its guard against a local that is always 0 (`Watch.next` above). A
repaired store would keep the index of the last accepted batch in the `Watch` (`w.idx`) across calls, so
that batches not newer than the snapshot are dropped. `Watch.nextLive` is that variant. The harness probes
the implementation once per run (does the lagging-publisher witness re-deliver an old event?) and tells
the driver which variant to compare with, so that a repair of known finding
`watch:stale-event-after-snapshot` is not reported as a difference. All theorems are about `Watch.next`. -/

def nextFromBatchesLive (q : Query) : Nat → List (List Ev) → Nat → Option (Ev × List Ev) × Nat × Nat
  | g, [], n => (none, n, g)
  | g, b :: bs, n =>
    if guardSkips g b then nextFromBatchesLive q g bs (n + 1)
    else
      let g' := match b with | e :: _ => e.idx | [] => g
      match takeFirst q b with
      | some (e, rest) => (some (e, rest), n + 1, g')
      | none => nextFromBatchesLive q g' bs (n + 1)

def Watch.nextLive (w : Watch) (buf : List (List Ev)) : Watch × NextRes :=
  match takeFirst w.q w.inbox with
  | some (e, rest) => ({ w with inbox := rest, gDelivered := w.gDelivered ++ [e.ev] }, .ev e.ev)
  | none =>
    let w := { w with inbox := [] }
    match w.st with
    | .forceClosed => (w, .closed)
    | .unsub => (w, .unsubErr)
    | .opened =>
      let pending := (match w.snap with | some b => [b] | none => []) ++ buf.drop w.pos
      let fromSnap := match w.snap with | some _ => 1 | none => 0
      match nextFromBatchesLive w.q w.lastIdx pending 0 with
      | (some (e, rest), n, g) =>
        ({ w with inbox := rest, snap := none, pos := w.pos + (n - fromSnap), lastIdx := g,
                  gDelivered := w.gDelivered ++ [e.ev] }, .ev e.ev)
      | (none, _, g) =>
        ({ w with snap := none, pos := w.pos + (pending.length - fromSnap), lastIdx := g }, .block)

def setAt {α : Type} (l : List α) (i : Nat) (a : α) : List α :=
  match l, i with
  | [], _ => []
  | _ :: xs, 0 => a :: xs
  | x :: xs, i + 1 => x :: setAt xs i a

/-- the topic buffer of the watch's subject -/
def World.bufOf (w : World) (wt : Watch) : List (List Ev) :=
  match findSub wt.subj w.subs with
  | some s => s.buf
  | none => []

def World.watchNext (w : World) (h : Nat) (live : Bool := false) : World × Option NextRes :=
  match w.watches[h]? with
  | none => (w, none)
  | some wt =>
    let (wt', r) := if live then wt.nextLive (w.bufOf wt) else wt.next (w.bufOf wt)
    ({ w with watches := setAt w.watches h wt' }, some r)

/-- `Watch.Close` → `Subscription.Unsubscribe` + `freeBuf` (once) -/
def World.watchClose (w : World) (h : Nat) : World × Bool :=
  match w.watches[h]? with
  | none => (w, false)
  | some wt =>
    let st' := if wt.st = .opened then .unsub else wt.st
    let wt' := { wt with st := st', released := true }
    let subs' :=
      if wt.released then w.subs
      else match findSub wt.subj w.subs with
        | none => w.subs
        | some s =>
          if s.refs ≤ 1 then dropSub s.key w.subs
          else setSub { s with refs := s.refs - 1 } w.subs
    ({ w with watches := setAt w.watches h wt', subs := subs' }, true)

/-- `Restoration.Commit`: swap in the new DB, evict the topic's cached snapshots, force-close
    every subscription. Topic buffers and publishCh are left as they are. -/
def World.restore (w : World) (rs : List Res) : World :=
  { w with
    db := { rows := restoreRows rs, evIdx := 2 },
    subs := w.subs.map (fun s => { s with cache := none }),
    watches := w.watches.map (fun wt => if wt.st = .opened then { wt with st := .forceClosed } else wt) }

/-! ### one operation of the world -/

inductive WOp where
  | bwrite (res : Res)                    -- inmem.Backend.WriteCAS
  | swrite (res : Res) (vsn : String)     -- inmem.Store.WriteCAS
  | delete (id : RID) (vsn : String)      -- DeleteCAS (Backend = Store)
  | rwrite (idx : Nat) (res : Res)        -- raft.Backend.Apply, write entry at Raft index `idx`
  | rdelete (id : RID) (vsn : String)     -- raft.Backend.Apply, delete entry
  | read (id : RID)
  | list (q : Query)
  | listOwner (id : RID)
  | wopen (q : Query)
  | wnext (h : Nat)
  | wclose (h : Nat)
  | pump
  | snap
  | restore (rs : List Res)
deriving DecidableEq, Repr

inductive WOut where
  | wres (r : WRes) (stored : Res)
  | dres (ok : Bool)
  | rres (r : ReadRes)
  | rows (l : List Res)
  | handle (h : Nat)
  | next (r : Option NextRes)
  | flag (ok : Bool)
  | unit
deriving DecidableEq, Repr

def World.step (w : World) (op : WOp) (live : Bool := false) : World × WOut :=
  match op with
  | .bwrite res => let (w', r, stored) := w.backendWrite res; (w', .wres r stored)
  | .swrite res vsn => let (w', r) := w.storeWrite res vsn; (w', .wres r res)
  | .delete id vsn => let (w', ok) := w.delete id vsn; (w', .dres ok)
  | .rwrite idx res => let (w', r, stored) := w.raftWrite idx res; (w', .wres r stored)
  | .rdelete id vsn => let (w', ok) := w.raftDelete id vsn; (w', .dres ok)
  | .read id => (w, .rres (w.db.read id))
  | .list q => (w, .rows (list w.db.rows q))
  | .listOwner id => (w, .rows (listByOwner w.db.rows id))
  | .wopen q => let (w', h) := w.watchOpen q; (w', .handle h)
  | .wnext h => let (w', r) := w.watchNext h live; (w', .next r)
  | .wclose h => let (w', ok) := w.watchClose h; (w', .flag ok)
  | .pump => let (w', ok) := w.pump; (w', .flag ok)
  | .snap => (w, .rows w.db.rows)
  | .restore rs => (w.restore rs, .unit)

def World.run (w : World) : List WOp → World
  | [] => w
  | op :: ops => (w.step op).1.run ops

end CV.Res
