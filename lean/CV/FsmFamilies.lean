/-
CV.FsmFamilies — the command families that have a Lean model somewhere in /verif, wrapped as
handlers of the FSM dispatch table (`CV.Fsm`), property C01 round 4. Nothing in the wrapped files is
changed:

  model (owner, tie)                          message types it is plugged in for
  ------------------------------------------  ---------------------------------------------------------
  CV.Store.apply      (C03/C04, + C01 store   RegisterRequestType 0, DeregisterRequestType 1,
                       section)                KVSRequestType 2, SessionRequestType 3,
                                               TombstoneRequestType 5, PreparedQueryRequestType 7,
                                               TxnRequestType 8                    — environment: `loc`
  CV.Cas.fsmApply     (C10)                   ConfigEntryRequestType 22, ConnectCARequestType 13,
                                               AutopilotRequestType 9, FeatureGateRequestType 45,
                                               ACLTokenSetRequestType 17, ACLTokenDeleteRequestType 18
  CV.Ixn.applyOpE     (C13)                   IntentionRequestType 12 (mutations and legacy rows)
  CV.Store.applyX     (C07)                   SystemMetadataRequestType 31, CoordinateBatchUpdateType 6
  (source reading)                            DeprecatedACLRequestType 4 (`return fmt.Errorf(…)`)

THE JOINT STATE IS A PRODUCT OF THE PER-FAMILY MODELS (`Joint`): every handler reads and writes only
the component of its own model. Effects that cross models in the real store (a service-intentions
config entry is both a `ConfigEntryRequestType` cell of CV.Cas and an entry of CV.Ixn; the
`virtual-ips` system-metadata flag of CV.Store.CatX steers registrations of CV.Store) are NOT
represented by the product: they are covered only where one model contains both sides (CV.Store:
KV + sessions + catalog + txn; CV.Store.CatX: catalog + config entries + flags, checked by C07).
What the product is good for — and all it is used for here — is the statement that no handler
consults anything but the command, its index and replicated state.

Payloads outside a model's command language (an op string the model has no constructor for,
e.g. `CAOpSetProviderState`, a bogus verb) are not covered: the decoder — an arbitrary function,
the decode layer is not modelled — returns `none` for them.
-/
import CV.Fsm
import CV.Store.Env
import CV.Cas
import CV.Ixn
import CV.Store.CatX

namespace CV.Fsm.Families
open CV CV.Fsm

/-- replicated state of a server, as far as some model describes it; `other` = every table no
    model covers yet (ACL policies/roles/…, peering, federation states, resources, manual VIPs) -/
structure Joint (O : Type) where
  store : Store.State
  cas : Cas.State
  ixn : Ixn.Store
  cat : Store.XState
  other : O

/-- result of a command, by the model that produced it -/
inductive JRes (R' : Type) where
  | store (r : Store.Result)
  | cas (r : Cas.Res)
  | ixn (e : Option Ixn.Err)
  | cat (r : Store.XResult)
  | legacyAcl                      -- "legacy ACL command has been removed with the legacy ACL system"
  | other (r : R')

/-- "the command was answered with an error" (for the modelled families) -/
def JRes.isErr {R' : Type} : JRes R' → Bool
  | .store r => r.isErr
  | .cas (.err _) => true
  | .ixn (some _) => true
  | .cat (.err _) => true
  | .legacyAcl => true
  | _ => false

variable {O R' : Type}

/-! ### CV.Store (environment: the server-local lock-delay map) -/

def storeH (dec : Store.Decoder) : Handler Store.Env (Joint O) (JRes R') :=
  fun env s idx p =>
    match dec p with
    | none => none
    | some c =>
      let r := Store.applyEnv env s.store idx c
      some ({ s with store := r.1 }, .store r.2)

/-! ### CV.Cas (no environment input at all) -/

/-- which commands of `CV.Cas.Cmd` each message type can carry -/
def casConfigEntry : Cas.Cmd → Bool
  | .cfgSet .. | .cfgDelete .. | .cfgCas .. | .cfgStatusCas .. | .cfgDeleteCas .. => true
  | _ => false
def casConnectCA : Cas.Cmd → Bool
  | .caCas .. | .rootsCas .. | .rootsAndConfig .. => true
  | _ => false
def casAutopilot : Cas.Cmd → Bool
  | .apSet .. | .apCas .. => true
  | _ => false
def casFeatureGate : Cas.Cmd → Bool
  | .fg .. => true
  | _ => false
def casTokenSet : Cas.Cmd → Bool
  | .tokSet .. => true
  | _ => false
def casTokenDelete : Cas.Cmd → Bool
  | .tokDelete .. => true
  | _ => false

def casH (allowed : Cas.Cmd → Bool) (dec : Bytes → Option Cas.Cmd) : Handler Store.Env (Joint O) (JRes R') :=
  fun _ s idx p =>
    match dec p with
    | none => none
    | some c =>
      if allowed c then
        let o := Cas.fsmApply s.cas idx c
        some ({ s with cas := o.state }, .cas o.res)
      else none

/-! ### CV.Ixn -/

/-- the operations an `IntentionRequestType` command can carry (config-entry apply / delete of a
    service-intentions entry travel as `ConfigEntryRequestType`) -/
def ixnIntentionOp : Ixn.Op → Bool
  | .up .. | .del .. | .lcreate .. | .lupdate .. | .ldelid .. | .lset .. | .ldel .. => true
  | _ => false

def ixnH (dec : Bytes → Option Ixn.Op) : Handler Store.Env (Joint O) (JRes R') :=
  fun _ s _ p =>
    match dec p with
    | none => none
    | some op =>
      if ixnIntentionOp op then
        let r := Ixn.applyOpE s.ixn op
        some ({ s with ixn := r.1 }, .ixn r.2)
      else none

/-! ### CV.Store.CatX: system metadata and coordinates -/

def catSysMeta : Store.XCmd → Bool
  | .sysmeta .. => true
  | _ => false
def catCoords : Store.XCmd → Bool
  | .coords .. => true
  | _ => false

def catH (allowed : Store.XCmd → Bool) (dec : Bytes → Option Store.XCmd) : Handler Store.Env (Joint O) (JRes R') :=
  fun _ s idx p =>
    match dec p with
    | none => none
    | some c =>
      if allowed c then
        let r := Store.applyX s.cat idx c
        some ({ s with cat := r.1 }, .cat r.2)
      else none

/-! ### the removed legacy ACL command -/

def legacyAclH : Handler Store.Env (Joint O) (JRes R') := fun _ s _ _ => some (s, .legacyAcl)

/-! ### the table -/

structure Decoders where
  store : Store.Decoders
  configEntry : Bytes → Option Cas.Cmd
  connectCA : Bytes → Option Cas.Cmd
  autopilot : Bytes → Option Cas.Cmd
  featureGate : Bytes → Option Cas.Cmd
  tokenSet : Bytes → Option Cas.Cmd
  tokenDelete : Bytes → Option Cas.Cmd
  intention : Bytes → Option Ixn.Op
  sysMeta : Bytes → Option Store.XCmd
  coords : Bytes → Option Store.XCmd

def storeFamily (d : Decoders) : Table Store.Env (Joint O) (JRes R') := [
  (0, storeH d.store.register), (1, storeH d.store.deregister), (2, storeH d.store.kvs),
  (3, storeH d.store.session), (5, storeH d.store.tombstone), (7, storeH d.store.preparedQuery),
  (8, storeH d.store.txn)]

def casFamily (d : Decoders) : Table Store.Env (Joint O) (JRes R') := [
  (22, casH casConfigEntry d.configEntry), (13, casH casConnectCA d.connectCA),
  (9, casH casAutopilot d.autopilot), (45, casH casFeatureGate d.featureGate),
  (17, casH casTokenSet d.tokenSet), (18, casH casTokenDelete d.tokenDelete)]

def ixnFamily (d : Decoders) : Table Store.Env (Joint O) (JRes R') := [(12, ixnH d.intention)]

def catFamily (d : Decoders) : Table Store.Env (Joint O) (JRes R') :=
  [(31, catH catSysMeta d.sysMeta), (6, catH catCoords d.coords)]

def legacyAclFamily : Table Store.Env (Joint O) (JRes R') := [(4, legacyAclH)]

def concreteFamilies (d : Decoders) : List (Table Store.Env (Joint O) (JRes R')) :=
  [storeFamily d, casFamily d, ixnFamily d, catFamily d, legacyAclFamily]

/-- message types (constant names) whose handler is concrete in `concreteFamilies` -/
def concreteTypes : List String := [
  "RegisterRequestType", "DeregisterRequestType", "KVSRequestType", "SessionRequestType",
  "TombstoneRequestType", "PreparedQueryRequestType", "TxnRequestType",
  "ConfigEntryRequestType", "ConnectCARequestType", "AutopilotRequestType", "FeatureGateRequestType",
  "ACLTokenSetRequestType", "ACLTokenDeleteRequestType",
  "IntentionRequestType", "SystemMetadataRequestType", "CoordinateBatchUpdateType",
  "DeprecatedACLRequestType"]

/-- message types whose handler is still an opaque hypothesis of `replicas_agree_consul_families` -/
def opaqueTypes : List String := [
  "ACLBootstrapRequestType", "ACLPolicySetRequestType", "ACLPolicyDeleteRequestType",
  "ConnectCALeafRequestType", "ACLRoleSetRequestType", "ACLRoleDeleteRequestType",
  "ACLBindingRuleSetRequestType", "ACLBindingRuleDeleteRequestType", "ACLAuthMethodSetRequestType",
  "ACLAuthMethodDeleteRequestType", "FederationStateRequestType", "PeeringWriteType",
  "PeeringDeleteType", "PeeringTerminateByIDType", "PeeringTrustBundleWriteType",
  "PeeringTrustBundleDeleteType", "PeeringSecretsWriteType", "ResourceOperationType",
  "UpdateVirtualIPRequestType"]

/-! ### the environment-DEPENDENT step: rendering a virtual IP (`state.addIPOffset`)

CV.Store.CatX keeps a service's virtual IP as the OFFSET inside the range (that part is environment
free). The real `assignServiceVirtualIP` ends with `addIPOffset`, which turns the offset into the
address stored in the service's `consul-virtual` tagged address by asking `netutil.IsDualStack` for
the address family of THIS server's bind address — and fails when that is not available yet. -/

inductive BindAddr | v4 | v6 | unset
deriving DecidableEq, Repr

def v4Base : Nat := 4026531840                                -- 240.0.0.0
def v6Base : Nat := 42535295865117307932921825928971026432   -- 2000::

/-- `addIPOffset`: `none` = "failed to determine if dual-stack mode is enabled" -/
def renderVip : BindAddr → Nat → Option Nat
  | .v4, off => some (v4Base + off)
  | .v6, off => some (v6Base + off)
  | .unset, _ => none

/-- the offset CatX recorded for the service a registration carries -/
def registeredOffset (s : Store.XState) (r : Store.XRegReq) : Option Nat :=
  match r.svc with
  | none => none
  | some q => (Store.extFind (s.cat r.peer) r.node.name q.id).bind (·.vip)

/-- replicated state of the rendered registration: CatX's state plus the rendered tagged addresses
    (service row key ↦ address) -/
abbrev Rendered := Store.XState × List (String × Nat)

/-- a registration as the real code runs it: the environment-free catalog step of CatX, then — if
    the service carries a virtual IP — `addIPOffset` under this server's bind address; a failed
    lookup rejects the whole command -/
def registerRendered (env : BindAddr) (s : Rendered) (idx : Nat) (r : Store.XRegReq) : Rendered × Store.XResult :=
  let x := Store.applyX s.1 idx (.register r)
  match x.2 with
  | .ok =>
    match registeredOffset x.1 r with
    | none => ((x.1, s.2), .ok)
    | some off =>
      match renderVip env off with
      | none => (s, .err .desync)    -- stands for the lookup error; nothing is committed
      | some addr =>
        let key := match r.svc with | some q => Store.pk2 r.node.name q.id | none => ""
        ((x.1, (key, addr) :: s.2.filter (fun e => e.1 ≠ key)), .ok)
  | res => ((x.1, s.2), res)

def vipRegisterH (dec : Bytes → Option Store.XRegReq) : Handler BindAddr Rendered Store.XResult :=
  fun env s idx p =>
    match dec p with
    | none => none
    | some r => some (registerRendered env s idx r)

/-- `RegisterRequestType` with connect kinds and virtual IPs, as an environment-parametrised family -/
def vipRegisterFamily (dec : Bytes → Option Store.XRegReq) : Table BindAddr Rendered Store.XResult :=
  [(0, vipRegisterH dec)]

end CV.Fsm.Families
