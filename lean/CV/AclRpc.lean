/-
CV.AclRpc — model of `ACLResolver.ResolveToken` when the backend does NOT resolve locally (client
agents, servers without local replication): identities, roles and policies are fetched by RPC and
kept in TTL caches (property C08, round 2).

Mirrors agent/consul/acl.go
  * `resolveIdentityFromToken` / `fetchAndCacheIdentityFromToken`   (hit iff `Age() <= ACLTokenTTL`)
  * `collectRolesForIdentity` / `fetchAndCacheRolesForIdentity`     (expired iff `Age() >= ACLRoleTTL`)
  * `collectPoliciesForIdentity` / `fetchAndCachePoliciesForIdentity` (expired iff `Age() >= ACLPolicyTTL`;
       a negative entry is skipped while fresh and re-fetched once aged — the repaired code)
  * the down policies: `extend-cache` / `async-cache` re-use an expired entry when the RPC fails,
       `async-cache` answers from expired entries without waiting when nothing is missing,
       an RPC failure without a usable entry gives the down authorizer (`ACLRemoteError`)
  * `ResolveToken`: identity → roles → policies → `Compile` (shared parsed / authorizer caches) → chain
and agent/structs/acl_cache.go (`CacheTime`, `Age`).

Modelling decisions
  * Time is a `Nat` clock; an entry remembers the clock value at which it was written. Operations take
    no time (the real ones take a little: the harness keeps TTLs off the tick grid so that the
    difference cannot be observed).
  * The batch fetch of Go ("classify every id against the cache, fetch the missing and expired ones in
    one RPC, append what came back in map order") is modelled position-wise: the result lists the
    value of every id in the order of the ids. The real order is a permutation of it; decisions do
    not depend on the order (`merge_perm`; for roles this is validated by the correspondence run).
  * `async-cache` answers from the expired entries and refreshes in the background; the model applies
    the refresh immediately (the harness waits for the background call before the next operation).
  * Not modelled: the retry loop for tokens deleted while their policies are fetched
    (`policyOrRoleTokenError`), local tokens of other datacenters, token expiry, LRU eviction.
Core-only Lean; no Mathlib.
-/
import CV.Acl
namespace CV.Acl

/-! ### timed caches -/

structure Entry (β : Type) where
  val : β
  time : Nat
deriving Repr

abbrev TCache (β : Type) := List (Bytes × Entry β)

def TCache.get {β : Type} (c : TCache β) (k : Bytes) : Option (Entry β) := (c.find? fun e => e.1 = k).map (·.2)
def TCache.put {β : Type} (c : TCache β) (k : Bytes) (v : β) (now : Nat) : TCache β :=
  (k, ⟨v, now⟩) :: c.filter fun e => e.1 ≠ k
def TCache.remove {β : Type} (c : TCache β) (k : Bytes) : TCache β := c.filter fun e => e.1 ≠ k

inductive DownPolicy | allow | deny | extend | async
deriving DecidableEq, Repr

structure RpcCfg where
  tokenTTL : Nat
  policyTTL : Nat
  roleTTL : Nat
  down : DownPolicy
  dflt : Static
  dc : Bytes
deriving Repr

def RpcCfg.extendCache (c : RpcCfg) : Bool := c.down = .extend || c.down = .async
def RpcCfg.isAsync (c : RpcCfg) : Bool := c.down = .async

/-- `ACLResolver.down` -/
def RpcCfg.downAuthz (c : RpcCfg) : Static :=
  match c.down with
  | .allow => .allowAll
  | .deny => .denyAll
  | _ => c.dflt

structure RpcState where
  idents : TCache Token
  pols : TCache (Option Doc)
  roles : TCache (Option Role)
  caches : Caches

def RpcState.empty : RpcState := ⟨[], [], [], Caches.empty⟩

/-! ### roles and policies: classify, fetch, collect -/

/-- what the first loop of `collect…ForIdentity` makes of one id -/
inductive Class (α : Type)
  | hit (v : Option α)   -- fresh entry (positive, or negative = `none`)
  | stale (v : α)        -- positive entry whose age reached the TTL
  | missing              -- no entry, or a negative entry whose age reached the TTL

def classify {α : Type} (e : Option (Entry (Option α))) (now ttl : Nat) : Class α :=
  match e with
  | none => .missing
  | some ⟨none, t⟩ => if now - t ≥ ttl then .missing else .hit none
  | some ⟨some v, t⟩ => if now - t ≥ ttl then .stale v else .hit (some v)

def Class.isHit {α : Type} : Class α → Bool | .hit _ => true | _ => false
def Class.isMissing {α : Type} : Class α → Bool | .missing => true | _ => false

structure CollectOut (α : Type) where
  cache : TCache (Option α)
  vals : Option (List (Option α))     -- `none` = `ACLRemoteError`

/-- `collectRolesForIdentity` / `collectPoliciesForIdentity` with their fetch function.
    `up` = the RPC succeeds; `lookup` = what the servers answer for an id right now. -/
def collect {α : Type} (extend async up : Bool) (lookup : Bytes → Option α) (cache : TCache (Option α))
    (ids : List Bytes) (now ttl : Nat) : CollectOut α :=
  let cls := fun id => classify (cache.get id) now ttl
  let fetchIds := ids.filter fun id => !(cls id).isHit
  if fetchIds.isEmpty then
    ⟨cache, some (ids.map fun id => match cls id with | .hit v => v | .stale v => some v | .missing => none)⟩
  else
    let wait := ids.any (fun id => (cls id).isMissing) || !async
    -- what the fetch yields for an id: the servers' answer, or on failure the expired entry (extend) or nothing
    let fetched : Bytes → Option (Option α) := fun id =>
      if up then some (lookup id)
      else match cls id with
        | .stale v => if extend then some (some v) else none
        | _ => none
    -- every fetched id is written back: the answer, the extended entry, or a negative entry
    let written : Bytes → Option α := fun id => match fetched id with | some v => v | none => none
    let cache' := fetchIds.foldl (fun c id => c.put id (written id) now) cache
    if wait then
      if fetchIds.all fun id => (fetched id).isSome then
        ⟨cache', some (ids.map fun id => match cls id with | .hit v => v | _ => written id)⟩
      else ⟨cache', none⟩
    else
      ⟨cache', some (ids.map fun id => match cls id with | .hit v => v | .stale v => some v | .missing => none)⟩

/-! ### the identity -/

inductive IdErr | notFound | remote
deriving DecidableEq, Repr

/-- `resolveIdentityFromToken` -/
def resolveIdent (cfg : RpcCfg) (up : Bool) (lookup : Bytes → Option Token) (cache : TCache Token)
    (secret : Bytes) (now : Nat) : TCache Token × Except IdErr Token :=
  let e := cache.get secret
  let fresh : Bool := match e with | some x => now - x.time ≤ cfg.tokenTTL | none => false
  match e, fresh with
  | some x, true => (cache, .ok x.val)
  | _, _ =>
    let fetch : TCache Token × Except IdErr Token :=
      if up then
        match lookup secret with
        | none => (cache.remove secret, .error .notFound)
        | some t => (cache.put secret t now, .ok t)
      else
        match e with
        | some x => if cfg.extendCache then (cache.put secret x.val now, .ok x.val)
                    else (cache.remove secret, .error .remote)
        | none => (cache.remove secret, .error .remote)
    match e with
    | some x => if cfg.isAsync then (fetch.1, .ok x.val) else fetch
    | none => fetch

/-! ### ResolveToken -/

inductive RpcResult
  | err (e : ResolveErr)
  | down                 -- the down-policy authorizer answers
  | ok (z : Authz)
deriving Repr

def filterSome {α : Type} (l : List (Option α)) : List α := l.filterMap id

/-- compile the collected documents through the shared parsed-policy / authorizer caches -/
def compileRpc (st : RpcState) (ds : List Doc) : RpcState × RpcResult :=
  let out := compile st.caches ds
  match out.authz with
  | none => ({ st with caches := out.caches }, .err .compile)
  | some z => ({ st with caches := out.caches }, .ok z)

/-- `resolvePoliciesForIdentity` + `Compile` for an identity that has been resolved -/
def resolveLinks (cfg : RpcCfg) (up : Bool) (s : Store) (now : Nat) (st : RpcState) (t : Token) :
    RpcState × RpcResult :=
  if t.noLinks then compileRpc st []
  else
    let ro := collect cfg.extendCache cfg.isAsync up s.role st.roles t.roles now cfg.roleTTL
    let st := { st with roles := ro.cache }
    match ro.vals with
    | none => (st, .down)
    | some rvals =>
      let roles := filterSome rvals
      let pids := dedupeSorted (t.policies ++ roles.flatMap (·.policies))
      let po := collect cfg.extendCache cfg.isAsync up s.doc st.pols pids now cfg.policyTTL
      let st := { st with pols := po.cache }
      match po.vals with
      | none => (st, .down)
      | some pvals =>
        compileRpc st (filterByScope cfg.dc (filterSome pvals ++ synthDocs t roles))

/-- `ResolveToken` in RPC mode. `s` is the servers' current state. -/
def resolveRpc (cfg : RpcCfg) (up : Bool) (s : Store) (now : Nat) (st : RpcState) (secret : Bytes) :
    RpcState × RpcResult :=
  if secret ∈ rootNames then (st, .err .root)
  else
    let ri := resolveIdent cfg up s.token st.idents (if secret = [] then anonymousToken else secret) now
    match ri.2 with
    | .error .notFound => ({ st with idents := ri.1 }, .err .notFound)
    | .error .remote => ({ st with idents := ri.1 }, .down)
    | .ok t => resolveLinks cfg up s now { st with idents := ri.1 } t

/-- the decision a caller sees -/
def RpcResult.decide (cfg : RpcCfg) (r : RpcResult) (q : Req) : Option Dec :=
  match r with
  | .err _ => none
  | .down => some (cfg.downAuthz.decide q)
  | .ok z => some (chain z cfg.dflt q)

end CV.Acl
