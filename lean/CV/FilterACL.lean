/-
CV.Filter.Expiry (continued) — the front of `ACLResolver.ResolveToken` and `filterACL`
(property C09: where token resolution and result filtering meet).

Mirrors, as the code is,
  * agent/consul/acl.go   `ResolveToken` before the retry loop: ACLs disabled ⇒ `acl.ManageAll()` with no
                          identity; the root names "allow" / "deny" / "manage" ⇒ `acl.ErrRootDenied`; the
                          empty secret stands for the anonymous token; `resolveLocallyManagedToken`
                          (only with a token store: the agent recovery token — never the empty one — and
                          the server management token, both identities without expiry); then the loop of
                          CV/FilterExpiry.lean
  * agent/consul/acl.go   `NewACLResolver` (the down-policy authorizer), `agentRecoveryAuthorizer`
  * agent/consul/acl.go   `filterACL`: resolve, on error return it and leave the subject alone, otherwise
                          run `aclfilter.New(authorizer).Filter(subject)`
  * acl/static_authorizer.go  the decisions of `AllowAll` / `DenyAll` / `ManageAll` that filtering consults
What compiling a granted token's policies yields is C08's subject: `tokenAuthz : Token → Authz` is a
parameter and the theorems hold for every such function. Core-only Lean.
-/
import CV.Filter
import CV.FilterExpiry
namespace CV.Filter.Expiry
open CV.Filter

/-- `acl.AnonymousTokenSecret` -/
def anonymousSecret : String := "anonymous"

/-- What `ResolveToken` consults besides the identity sources. -/
structure Env where
  aclsEnabled   : Bool       -- `ACLsEnabled()`
  hasTokenStore : Bool       -- `r.tokens != nil`
  agentRecovery : String     -- the agent recovery token of the token store ("" = none)
  serverMgmt    : String     -- the server management token the backend knows ("" = none)
deriving DecidableEq, Repr

/-- `acl.RootAuthorizer(id) != nil` -/
def isRootName (s : String) : Bool := s = "allow" || s = "deny" || s = "manage"

inductive Resolved
  | aclsDisabled              -- `Result{Authorizer: acl.ManageAll()}`: no identity at all
  | rootDenied                -- `acl.ErrRootDenied`
  | agentRecovery             -- `AgentRecoveryTokenIdentity` (IsExpired is constantly false)
  | serverManagement          -- `ACLServerIdentity` (IsExpired is constantly false), `acl.ManageAll()`
  | token (o : Outcome2)      -- the retry loop decided
deriving DecidableEq, Repr

/-- `ACLResolver.ResolveToken`. -/
def resolveTokenEntry (env : Env) (cfg : Cfg) (store : Option (List Token)) (c : Cache) (script : List Round)
    (secret : String) (now : Nat) : Cache × Resolved :=
  if !env.aclsEnabled then (c, .aclsDisabled)
  else if isRootName secret then (c, .rootDenied)
  else
    let secret := if secret = "" then anonymousSecret else secret
    if env.hasTokenStore && (secret ≠ "" && secret = env.agentRecovery) then (c, .agentRecovery)
    else if env.hasTokenStore && (env.serverMgmt ≠ "" && secret = env.serverMgmt) then (c, .serverManagement)
    else
      let (c', o) := resolveTokenAll cfg store c script secret now
      (c', .token o)

/-- `staticAuthorizer{defaultAllow, allowManage}` as far as filtering asks it. -/
def staticAuthz (defaultAllow manage : Bool) : Authz :=
  ⟨fun _ => defaultAllow, fun _ => defaultAllow, fun _ => defaultAllow, fun _ => defaultAllow,
   fun _ => defaultAllow, fun _ => defaultAllow, manage, manage⟩

def manageAll : Authz := staticAuthz true true
def allowAll : Authz := staticAuthz true false
def denyAll : Authz := staticAuthz false false

/-- `agentRecoveryAuthorizer`: `agent "<node>" { policy = "write" } node_prefix "" { policy = "read" }`
    over deny-all. -/
def recoveryAuthz : Authz :=
  ⟨fun _ => true, fun _ => false, fun _ => false, fun _ => false, fun _ => false, fun _ => false, false, false⟩

/-- The authorizer a resolution hands to its caller (`none`: an error is returned instead).
    `down b`: the primary could not be asked; `b` = the down policy is "allow" (extend-cache and
    async-cache fall back to the default policy, which is "deny" throughout this model). -/
def Resolved.authz (tokenAuthz : Token → Authz) : Resolved → Option Authz
  | .aclsDisabled => some manageAll
  | .rootDenied => none
  | .agentRecovery => some recoveryAuthz
  | .serverManagement => some manageAll
  | .token (.granted t) => some (tokenAuthz t)
  | .token (.down b) => some (if b then allowAll else denyAll)
  | .token _ => none

/-- Is a token identity behind this resolution? (`some t`: yes, this one.) -/
def Resolved.identity : Resolved → Option Token
  | .token (.granted t) => some t
  | _ => none

inductive FilterRes
  | ok (r : Resp)         -- the subject after filtering; `filterACL` returned nil
  | panic                 -- the filter panicked on a nil-pointer input (`Resp.panics`)
  | err (e : Resolved)    -- `filterACL` returned the resolution error; the subject is as it was
deriving DecidableEq, Repr

/-- `filterACL(r, token, subj)` -/
def filterACL (tokenAuthz : Token → Authz) (env : Env) (cfg : Cfg) (store : Option (List Token)) (c : Cache)
    (script : List Round) (secret : String) (now : Nat) (subj : Resp) : Cache × FilterRes :=
  let (c', r) := resolveTokenEntry env cfg store c script secret now
  match r.authz tokenAuthz with
  | none => (c', .err r)
  | some a =>
    match filterResp a subj with
    | some out => (c', .ok out)
    | none => (c', .panic)

end CV.Filter.Expiry
