/-
CV.ResLin — linearizability checker for recorded concurrent histories of the resource store, and the
check of every watcher's stream against the linearization (property C18).

A history is a list of completed operations with call / return stamps from one monotonic counter.
`linCheck` searches for a linearization with the sequential specification `specStep` (the same
`DB.writeCAS` / `DB.deleteCAS` / `DB.read` / `list` / `listByOwner` functions the theorems are about);
whatever the search returns is re-validated by `validLin`, so soundness (`linCheck_sound`) does not
depend on the search strategy.  The search is WGL-style: operations that are minimal in the real-time
order and legal in the current state are candidates; non-mutating ones are taken greedily (always safe),
mutating ones (and deletes that returned success, which may or may not have removed something) are
branch points, tried in the order suggested by an optional hint (the commit order seen
by an observer watch).  A node budget keeps the driver total and fast on non-linearizable input.
-/
import CV.Res
namespace CV.Res.Lin

inductive HCall where
  | write (res : Res) (vsn : String)      -- Store-level: `res.version` is the version stored on success
  | delete (id : RID) (vsn : String)
  | read (id : RID)
  | list (q : Query)
  | listOwner (id : RID)
  | restore (rows : List Res)
deriving DecidableEq, Repr

inductive HRet where
  | w (r : WRes)
  | d (ok : Bool)
  | r (r : ReadRes)
  | l (rows : List Res)
  | unit
deriving DecidableEq, Repr

structure HOp where
  tid  : Nat
  call : Nat
  ret  : Nat
  op   : HCall
  res  : HRet
deriving DecidableEq, Repr

/-- the sequential specification: new rows, result, committed event -/
def specStep (rows : Rows) : HCall → Rows × HRet × Option WEv
  | .write res vsn =>
    let (db', r, e) := (DB.mk rows 0).writeCAS res vsn
    (db'.rows, .w r, e.map (·.ev))
  | .delete id vsn =>
    let (db', ok, e) := (DB.mk rows 0).deleteCAS id vsn
    (db'.rows, .d ok, e.map (·.ev))
  | .read id => (rows, .r ((DB.mk rows 0).read id), none)
  | .list q => (rows, .l (list rows q), none)
  | .listOwner id => (rows, .l (listByOwner rows id), none)
  | .restore rs => (restoreRows rs, .unit, none)

/-- every operation is legal for `specStep` when run in this order from `st` -/
def legal : Rows → List HOp → Bool
  | _, [] => true
  | st, o :: os =>
    let (st', r, _) := specStep st o.op
    r == o.res && legal st' os

/-- the run of a sequence of calls from `st`: each call with its result and committed event -/
def trace : Rows → List HCall → List (HCall × HRet × Option WEv)
  | _, [] => []
  | st, c :: cs => (c, (specStep st c).2.1, (specStep st c).2.2) :: trace (specStep st c).1 cs

def finalRows : Rows → List HCall → Rows
  | st, [] => st
  | st, c :: cs => finalRows (specStep st c).1 cs

/-- no operation is placed before one that had already returned when it was called -/
def RespectsRT (l : List HOp) : Prop := l.Pairwise fun a b => ¬ b.ret < a.call

instance (l : List HOp) : Decidable (RespectsRT l) := by unfold RespectsRT; infer_instance

def validLin (h l : List HOp) : Bool := l.isPerm h && decide (RespectsRT l) && legal [] l

/-! ### the search -/

/-- observer / watcher stream items -/
inductive SEv where
  | upsert (r : Res)
  | delete (r : Res)
  | eos
  | closed
deriving DecidableEq, Repr

def SEv.ofWEv : WEv → SEv
  | .upsert r => .upsert r
  | .delete r => .delete r
  | .eos => .eos

def isMinimal (pending : List HOp) (o : HOp) : Bool := pending.all fun p => !(p.ret < o.call)

def hintMatches (hint : List SEv) (e : Option WEv) : Bool :=
  match hint, e with
  | h :: _, some e => h == SEv.ofWEv e
  | _, _ => false

/-- the recorded result shows that the operation changed nothing, whatever the state was: reads, lists,
    rejected writes, rejected deletes. (A delete that returned success may or may not have removed the
    resource — it is a branch point of the search, not a greedy step.) -/
def readOnlyResult (o : HOp) : Bool :=
  match o.res with
  | .r _ => true
  | .l _ => true
  | .w r => r != .ok
  | .d ok => !ok
  | .unit => false

/-- `linSearch strict fuel budget st pending hint acc`. In strict mode a committing operation is only
    taken when its event is the next one of the hint (the commit order an observer saw), so that the
    linearization found has the commits in the observed order; the free mode ignores the hint once it
    stops matching. -/
def linSearch (strict : Bool) : Nat → Nat → Rows → List HOp → List SEv → List HOp → Option (List HOp) × Nat
  | 0, b, _, _, _, _ => (none, b)
  | fuel + 1, b, st, pending, hint, acc =>
    if pending.isEmpty then (some acc.reverse, b)
    else if b = 0 then (none, 0)
    else
      let mins := pending.filter (isMinimal pending)
      match mins.find? (fun o => readOnlyResult o && (specStep st o.op).2.1 == o.res) with
      | some o => linSearch strict fuel (b - 1) st (pending.erase o) hint (o :: acc)
      | none =>
        let cands := mins.filter fun o => (specStep st o.op).2.1 == o.res
        let (pref, other) := cands.partition fun o => hintMatches hint (specStep st o.op).2.2
        let (muts, noop) := other.partition fun o => (specStep st o.op).2.2.isSome
        (pref ++ noop ++ (if strict then [] else muts)).foldl (fun (acc' : Option (List HOp) × Nat) o =>
            match acc' with
            | (some l, b') => (some l, b')
            | (none, b') =>
              let (st', _, e) := specStep st o.op
              let hint' := if e.isNone then hint else if hintMatches hint e then hint.drop 1 else []
              linSearch strict fuel b' st' (pending.erase o) hint' (o :: acc))
          (none, b - 1)

def searchBudget : Nat := 200000

/-- the checker: search (first following the hint strictly, then freely), then validate what the
    search produced -/
def linCheck (h : List HOp) (hint : List SEv) : Option (List HOp) :=
  let found := match (linSearch true (h.length + 1) searchBudget [] h hint []).1 with
    | some l => some l
    | none => (linSearch false (h.length + 1) searchBudget [] h hint []).1
  match found with
  | some l => if validLin h l then some l else none
  | none => none

/-! ### watcher streams against a linearization -/

structure HWatch where
  openCall : Nat
  openRet  : Nat
  complete : Bool          -- the harness drained the stream after the publisher went quiescent
  q        : Query
  evs      : List SEv
deriving Repr

structure Hist where
  ops     : List HOp := []
  hint    : List SEv := []
  watches : List HWatch := []
deriving Repr, Inhabited

/-- rows after each prefix of the linearization (n+1 entries) and the event of each operation -/
def statesOf : Rows → List HOp → List Rows
  | st, [] => [st]
  | st, o :: os => st :: statesOf (specStep st o.op).1 os

def eventsOf : Rows → List HOp → List (Option WEv)
  | _, [] => []
  | st, o :: os => let (st', _, e) := specStep st o.op; e :: eventsOf st' os

/-- would `publishEvent` put `e` on the buffer of `q`'s subject, and would `Watch.Next` return it? -/
def relevant (q : Query) (e : WEv) : Bool :=
  (evSubjects ⟨0, e⟩).contains q.subject.1 && delivers q ⟨0, e⟩

/-- what `Watch.Next` returns out of the snapshot batch taken in state `rows` -/
def snapshotSeen (q : Query) (rows : Rows) : List SEv :=
  ((list rows q.subject.2).filter q.matches).map .upsert

def splitAtEos : List SEv → Option (List SEv × List SEv)
  | [] => none
  | .eos :: rest => some ([], rest)
  | e :: rest => (splitAtEos rest).map fun (a, b) => (e :: a, b)

def stripClosed (l : List SEv) : List SEv × Bool :=
  match l.reverse with
  | .closed :: r => (r.reverse, true)
  | _ => (l, false)

/-- The stream is what the faithful model allows: the listing of the state after some prefix `p` of the
    linearization (all of whose committing operations had been called before `WatchList` returned;
    where the non-mutating ones sit in the linearization is immaterial), EndOfSnapshot,
    then the relevant events from some position `d ≤ p` on — all of them if the stream is complete,
    a prefix otherwise.  (`d < p` is the lagging-publisher behaviour; the property wants `d = p`.) -/
def watchOK (lin : List HOp) (w : HWatch) : Bool :=
  let n := lin.length
  let states := statesOf [] lin
  let events := eventsOf [] lin
  let (evs, closed) := stripClosed w.evs
  match splitAtEos evs with
  | none =>
    -- force-closed before the snapshot was fetched, or the harness left in the middle of the snapshot
    (closed && evs.isEmpty) ||
    (!w.complete && (List.range (n + 1)).any fun p =>
      match states[p]? with | some st => evs.isPrefixOf (snapshotSeen w.q st) | none => false)
  | some (pre, post) =>
    (List.range (n + 1)).any fun p =>
      (match states[p]? with | some st => pre == snapshotSeen w.q st | none => false) &&
      ((lin.zip events).take p).all (fun (o, e) => e.isNone || o.call < w.openRet) &&
      (List.range (p + 1)).any fun d =>
        let exp := ((events.drop d).filterMap id).filter (relevant w.q) |>.map SEv.ofWEv
        if w.complete && !closed then post == exp else post.isPrefixOf exp

def verdict (h : Hist) : String :=
  match linCheck h.ops h.hint with
  | none => "lin=fail"
  | some lin =>
    let bad := (h.watches.zipIdx.filter fun (w, _) => !watchOK lin w).map fun (_, i) => toString i
    if bad.isEmpty then s!"lin=ok n={lin.length} watches=ok"
    else s!"lin=ok n={lin.length} watches=fail:" ++ ",".intercalate bad

end CV.Res.Lin
