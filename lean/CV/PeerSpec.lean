/-
CV.PeerSpec — the vocabulary of the C17 property theorems (no proofs): what "the rest of the catalog" is,
when a catalog and a received snapshot are well formed, which received rows a snapshot stands for, and the
hypotheses of the exactness theorem. Model: CV/Peer.lean. Theorems: CV/Props/C17.lean.
-/
import CV.Peer
namespace CV.Peer

/-! ### everything that does not belong to peer `p` -/

/-- the sub-catalog of all rows whose peer is not `p` (local rows have peer `""`), in table order -/
def others (p : String) (c : Cat) : Cat :=
  { nodes := c.nodes.filter (fun x => decide (x.peer ≠ p))
    svcs := c.svcs.filter (fun x => decide (x.peer ≠ p))
    chks := c.chks.filter (fun x => decide (x.peer ≠ p)) }


/-! ### one catalog contained in another (row-wise) -/

structure Sub (a b : Cat) : Prop where
  nodes : ∀ x ∈ a.nodes, x ∈ b.nodes
  svcs : ∀ x ∈ a.svcs, x ∈ b.svcs
  chks : ∀ x ∈ a.chks, x ∈ b.chks


/-! ### a snapshot that is one consistent `CheckServiceNodes` result of the exporter -/

/-- What every `CheckServiceNodes(sn)` result of an exporting cluster satisfies (its state store has unique
    keys): instances of `sn` with non-empty names; one node definition per node name and one node name per
    UUID; one instance per (node, service id); checks live on the instance's node, have a status, are node
    checks or belong to the instance; a check id names one check per node; node checks are attached to every
    instance of the node. -/
structure SnapOK (sn : String) (is : List Inst) : Prop where
  inst : ∀ i ∈ is, i.node.name ≠ "" ∧ i.svc.sid ≠ "" ∧ i.svc.name = sn
  chk : ∀ i ∈ is, ∀ k ∈ i.chks, k.cid ≠ "" ∧ k.node = i.node.name ∧ k.status ≠ "" ∧
          (k.sid = "" ∨ (k.sid = i.svc.sid ∧ k.sname = i.svc.name))
  cids : ∀ i ∈ is, i.chks.Pairwise (fun a b => a.cid ≠ b.cid)
  node : ∀ i ∈ is, ∀ j ∈ is, i.node.name = j.node.name → i.node = j.node
  ids : ∀ i ∈ is, ∀ j ∈ is, i.node.id = j.node.id → i.node.id ≠ "" → i.node.name = j.node.name
  keys : is.Pairwise (fun a b => ¬(a.node.name = b.node.name ∧ a.svc.sid = b.svc.sid))
  cross : ∀ i ∈ is, ∀ j ∈ is, i.node.name = j.node.name → ∀ k ∈ i.chks, ∀ l ∈ j.chks, k.cid = l.cid → k = l
  nodeChks : ∀ i ∈ is, ∀ j ∈ is, i.node.name = j.node.name → ∀ k ∈ i.chks, k.sid = "" → k ∈ j.chks


/-- memdb primary keys are unique per table (stated on rows: two rows with the same key are the same row),
    and a service instance has a non-empty id -/
structure WF (c : Cat) : Prop where
  nodes : ∀ a ∈ c.nodes, ∀ b ∈ c.nodes, a.peer = b.peer → a.name = b.name → a = b
  svcs : ∀ a ∈ c.svcs, ∀ b ∈ c.svcs, a.peer = b.peer → a.node = b.node → a.sid = b.sid → a = b
  chks : ∀ a ∈ c.chks, ∀ b ∈ c.chks, a.peer = b.peer → a.node = b.node → a.cid = b.cid → a = b
  sid : ∀ s ∈ c.svcs, s.sid ≠ ""


/-- the rows a received definition turns into -/
def nodeRow (p : String) (d : NodeDef) : Node := ⟨p, d.name, d.id, d.addr⟩
def svcRow (p n : String) (s : SvcDef) : Svc := ⟨p, n, s.sid, s.name, s.port⟩
def chkRow (p : String) (k : ChkDef) : Chk := ⟨p, k.node, k.cid, k.sid, k.sname, normStatus k.status⟩


/-- The view `CheckServiceNodes(sn, p)` of catalog `c` IS the received instance list: it can be read, every
    entry is a received instance with the received node and exactly the received checks, and every received
    instance is an entry. -/
def ViewIs (c : Cat) (p sn : String) (is : List Inst) : Prop :=
  ∃ L, csn c p sn = .ok L ∧
    (∀ x ∈ L, ∃ i ∈ is, x.node = nodeRow p i.node ∧ x.svc = svcRow p i.node.name i.svc ∧
        ∀ k, k ∈ x.chks ↔ ∃ d ∈ i.chks, k = chkRow p d) ∧
    (∀ i ∈ is, ∃ x ∈ L, x.svc = svcRow p i.node.name i.svc)

/-! ### hypotheses about the prior catalog -/

/-- No stored node of the peer holds the UUID of a received node under another name
    (otherwise `ensureNodeTxn` renames: it deletes the stored node with everything on it). -/
def Fresh (c : Cat) (p : String) (is : List Inst) : Prop :=
  ∀ i ∈ is, i.node.id ≠ "" → ∀ e ∈ c.nodes, e.peer = p → e.id = i.node.id → e.name = i.node.name

instance (c : Cat) (p : String) (is : List Inst) : Decidable (Fresh c p is) := by unfold Fresh; infer_instance

/-- A stored node of the peer with the name of a received node has no UUID, or the received one, or its serf check
    is missing or critical (otherwise `ensureNoNodeWithSimilarNameTxn` refuses the registration: "node name is
    reserved"). -/
def NoClash (c : Cat) (p : String) (is : List Inst) : Prop :=
  ∀ i ∈ is, i.node.id ≠ "" → ∀ e ∈ c.nodes, e.peer = p → e.name = i.node.name →
    e.id = "" ∨ e.id = i.node.id ∨ serfHealthy c p e.name = false

/-- every stored instance of `(p, sn)` has its node row, so that `CheckServiceNodes` can be read -/
def Readable (c : Cat) (p sn : String) : Prop :=
  ∀ s ∈ c.svcs, s.peer = p → s.name = sn → ∃ n ∈ c.nodes, n.peer = p ∧ n.name = s.node

instance (c : Cat) (p : String) (is : List Inst) : Decidable (NoClash c p is) := by unfold NoClash; infer_instance
instance (c : Cat) (p sn : String) : Decidable (Readable c p sn) := by unfold Readable; infer_instance

/-! ### hypotheses about stale checks -/

/-- the peer has an instance of `sn` stored under this (node, service id) -/
def isStored (c : Cat) (p sn n i : String) : Prop := ∃ s ∈ c.svcs, s.peer = p ∧ s.node = n ∧ s.sid = i ∧ s.name = sn

instance (c : Cat) (p sn n i : String) : Decidable (isStored c p sn n i) := by unfold isStored; infer_instance

/-- A stored check that the clean-up will delete (it is visible through a stored instance that is still in the
    snapshot, and is not listed there) does not carry the id of a check the snapshot lists elsewhere on the node. -/
def NoReuse (c : Cat) (p sn : String) (is : List Inst) : Prop :=
  ∀ k ∈ c.chks, k.peer = p → ∀ i ∈ is, k.node = i.node.name → (k.sid = "" ∨ k.sid = i.svc.sid) →
    isStored c p sn i.node.name i.svc.sid → (∀ d ∈ i.chks, d.cid ≠ k.cid) →
    ∀ j ∈ is, j.node.name = i.node.name → ∀ d ∈ j.chks, d.cid ≠ k.cid

/-- Every stored check that is in the view of a received instance (a node check of its node, or a check of
    its service id) is listed by that instance, or is visible through a stored instance of `sn` on that node
    which is still in the snapshot — only those does the clean-up examine. -/
def Covered (c : Cat) (p sn : String) (is : List Inst) : Prop :=
  ∀ k ∈ c.chks, k.peer = p → ∀ i ∈ is, k.node = i.node.name → (k.sid = "" ∨ k.sid = i.svc.sid) →
    (∃ d ∈ i.chks, d.cid = k.cid) ∨
    ∃ j ∈ is, j.node.name = i.node.name ∧ isStored c p sn j.node.name j.svc.sid ∧ (k.sid = "" ∨ k.sid = j.svc.sid)


instance (c : Cat) (p sn : String) (is : List Inst) : Decidable (NoReuse c p sn is) := by unfold NoReuse; infer_instance
instance (c : Cat) (p sn : String) (is : List Inst) : Decidable (Covered c p sn is) := by unfold Covered; infer_instance

end CV.Peer
