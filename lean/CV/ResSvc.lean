/-
CV.ResSvc — model of the resource *service* layer on top of the storage model `CV.Res` (property C18).

Mirrors, as the code is,
  * agent/grpc-external/services/resource/write.go         `Write` (create path: uid minted, owner resolved; update
        path: stored id carried over, non-CAS version fill-in + `preserveDeferredDeletionMetadata`, version check,
        owner immutability, status carry-over, `vetIfDeleteRelated`), generation minted on every Write
  * agent/grpc-external/services/resource/write_status.go  `WriteStatus` (uid required, read, version check, one status
        key replaced, generation untouched)
  * agent/grpc-external/services/resource/delete.go        `Delete` (id/version resolution for name-only and non-CAS
        deletes, finalizers ⇒ mark for deletion through `Write`, tombstone first, then `DeleteCAS`),
        `TombstoneNameFor`
  * agent/grpc-external/services/resource/read.go, list.go, list_by_owner.go   (GroupVersion filter, error mapping)
  * agent/grpc-external/services/resource/server.go        `retryCAS` (one attempt for CAS calls, up to 5 for non-CAS
        calls, only `ErrCASFailure` is retried), CE tenancy defaulting
  * internal/storage/inmem/backend.go                      version := decimal of a counter bumped on every WriteCAS call

A service call is NOT atomic: between its backend read and each of its backend mutations other clients may
commit. The model makes that explicit: every service call carries a *schedule* — for the k-th backend mutation
(WriteCAS / DeleteCAS) the call performs, the list of foreign backend operations that commit right before it.
The harness realises the schedule with an interposing `storage.Backend`, so a line of the protocol is a
complete, replayable interleaving.

`ulid.Make()` results (uid, generation, tombstone uid / generation) and the `UpdatedAt` stamp are inputs of
the model (`Hints`): the theorems assume what they need about them (freshness), the driver checks it on each run.
The storage rows are `CV.Res.Res` (id, owner, version, data); everything else a `pbresource.Resource` carries
lives in a side table keyed by the storage key (`SExt`).
-/
import CV.Res
namespace CV.Res.Svc
open CV CV.Res

structure SStat where
  obsGen : String
  cond   : Nat          -- abstract payload (conditions)
  upd    : String       -- UpdatedAt
deriving DecidableEq, Repr, Inhabited

/-- what a `pbresource.Resource` carries besides id / owner / version / data -/
structure SExt where
  gen    : String := ""
  status : List (String × SStat) := []       -- the status map, ascending by key (nil = empty)
  delTs  : Option String := none             -- metadata["deletionTimestamp"]: key present? its value
  fins   : Option String := none             -- metadata["finalizers"]: key present? its raw value
  other  : Nat := 0                         -- all other metadata (abstract)
  tomb   : Option RID := none                -- Data.Owner when the resource is a tombstone
deriving DecidableEq, Repr, Inhabited

structure SRes where
  r : Res
  x : SExt
deriving DecidableEq, Repr, Inhabited

/-! ### the backend: `inmem.Backend` over `CV.Res.DB` + side table -/

structure SW where
  db  : DB
  ext : List (Bytes × SExt)
  ctr : Nat
deriving DecidableEq, Repr

def SW.init : SW := { db := DB.empty, ext := [], ctr := 0 }

def extLookup (k : Bytes) : List (Bytes × SExt) → SExt
  | [] => {}
  | (k', x) :: rest => if k' = k then x else extLookup k rest

def extSet (k : Bytes) (x : SExt) : List (Bytes × SExt) → List (Bytes × SExt)
  | [] => [(k, x)]
  | (k', x') :: rest => if k' = k then (k, x) :: rest else (k', x') :: extSet k x rest

def extDrop (k : Bytes) (l : List (Bytes × SExt)) : List (Bytes × SExt) := l.filter fun p => p.1 ≠ k

def SW.full (w : SW) (r : Res) : SRes := ⟨r, extLookup (idKey r.id) w.ext⟩

inductive SRead where
  | found (r : SRes)
  | notFound
  | gvMismatch (stored : SRes)
deriving DecidableEq, Repr

/-- `Backend.Read` -/
def SW.beRead (w : SW) (id : RID) : SRead :=
  match w.db.read id with
  | .found r => .found (w.full r)
  | .notFound => .notFound
  | .gvMismatch r => .gvMismatch (w.full r)

/-- `inmem.Backend.WriteCAS`: the version to store is the decimal of the bumped counter, the presented
    version is `sr.r.version`. -/
def SW.beWrite (w : SW) (sr : SRes) : SW × WRes × SRes :=
  let stored : SRes := { sr with r := { sr.r with version := toString (w.ctr + 1) } }
  let (db', res, _) := w.db.writeCAS stored.r sr.r.version
  match res with
  | .ok => ({ db := db', ext := extSet (idKey sr.r.id) sr.x w.ext, ctr := w.ctr + 1 }, .ok, stored)
  | e => ({ w with ctr := w.ctr + 1 }, e, stored)

/-- `inmem.Backend.DeleteCAS` -/
def SW.beDelete (w : SW) (id : RID) (vsn : String) : SW × Bool :=
  let (db', ok, e) := w.db.deleteCAS id vsn
  match e with
  | some _ => ({ w with db := db', ext := extDrop (idKey id) w.ext }, ok)
  | none => (w, ok)

/-- a foreign client's backend operation (interference) -/
inductive BOp where
  | write (sr : SRes)
  | delete (id : RID) (vsn : String)
deriving DecidableEq, Repr

def SW.bop (w : SW) : BOp → SW
  | .write sr => (w.beWrite sr).1
  | .delete id vsn => (w.beDelete id vsn).1

def SW.bops (w : SW) (l : List BOp) : SW := l.foldl SW.bop w

abbrev Sched := List (List BOp)

/-- run what the schedule puts in front of the next backend mutation of this call -/
def SW.interfere (w : SW) (s : Sched) : SW × Sched :=
  match s with
  | [] => (w, [])
  | l :: rest => (w.bops l, rest)

/-! ### small pieces -/

def str (s : String) : Bytes := s.toUTF8.toList.map (·.toNat)

/-! The constants of the Go source as byte literals (so that concrete facts reduce in the kernel); each is
    checked against its spelling at build time. -/
def bInternal : Bytes := [105, 110, 116, 101, 114, 110, 97, 108]
def bV1 : Bytes := [118, 49]
def bTombstone : Bytes := [84, 111, 109, 98, 115, 116, 111, 110, 101]
def bTombstoneDash : Bytes := [116, 111, 109, 98, 115, 116, 111, 110, 101, 45]
def bDash : Bytes := [45]
def bDefault : Bytes := [100, 101, 102, 97, 117, 108, 116]
def bArtist : Bytes := [65, 114, 116, 105, 115, 116]
def bAlbum : Bytes := [65, 108, 98, 117, 109]
#guard bInternal = str "internal" && bV1 = str "v1" && bTombstone = str "Tombstone" && bTombstoneDash = str "tombstone-"
  && bDash = str "-" && bDefault = str "default" && bArtist = str "Artist" && bAlbum = str "Album"

/-- `resource.TypeV1Tombstone` -/
def tombstoneType : RType := ⟨bInternal, bV1, bTombstone⟩

/-- `resource.EqualType` -/
def isTombstoneType (t : RType) : Bool := t = tombstoneType

def lowerB (b : Bytes) : Bytes := b.map fun c => if 65 ≤ c ∧ c ≤ 90 then c + 32 else c

/-- `TombstoneNameFor` -/
def tombstoneName (id : RID) : Bytes := bTombstoneDash ++ id.name ++ bDash ++ lowerB id.uid

/-- `strings.Fields` for values made of tokens and single/multiple spaces -/
def fields (s : String) : List String := (s.splitOn " ").filter (· ≠ "")

def finSet (x : SExt) : List String :=
  match x.fins with
  | none => []
  | some v => (fields v).eraseDups

/-- `resource.HasFinalizers` -/
def hasFinalizers (x : SExt) : Bool := !(finSet x).isEmpty

/-- `resource.IsMarkedForDeletion` -/
def marked (x : SExt) : Bool := x.delTs.isSome

/-- `EnsureFinalizerRemoved` succeeds: input's finalizers are a proper subset of existing's -/
def finalizerRemoved (input existing : SExt) : Bool :=
  let a := finSet input
  let b := finSet existing
  a.all (b.contains ·) && a.length < b.length

/-- `ensureMetadataSameExceptFor(…, DeletionTimestampKey)` succeeds -/
def metaSameButDelTs (a b : SExt) : Bool := a.fins = b.fins && a.other = b.other

/-- `ensureMetadataSameExceptFor(…, FinalizerKey)` succeeds -/
def metaSameButFins (a b : SExt) : Bool := a.delTs = b.delTs && a.other = b.other

inductive SErr where
  | aborted                 -- storage.ErrCASFailure  → codes.Aborted (the only error `retryCAS` retries)
  | abortedStatus           -- a codes.Aborted gRPC status from a nested endpoint call: passed through, never retried
  | wrongUid                -- storage.ErrWrongUid    → codes.FailedPrecondition
  | notFound                -- codes.NotFound
  | invalid (why : String)  -- codes.InvalidArgument, with the reason
  | internal                -- codes.Internal
deriving DecidableEq, Repr

instance {ε α : Type} [DecidableEq ε] [DecidableEq α] : DecidableEq (Except ε α)
  | .ok a, .ok b => if h : a = b then isTrue (by rw [h]) else isFalse (by intro e; cases e; exact h rfl)
  | .error a, .error b => if h : a = b then isTrue (by rw [h]) else isFalse (by intro e; cases e; exact h rfl)
  | .ok _, .error _ => isFalse (by intro e; cases e)
  | .error _, .ok _ => isFalse (by intro e; cases e)

def tsValue (x : SExt) : String := match x.delTs with | some v => v | none => ""

/-- `vetIfDeleteRelated`: `some reason` = rejected -/
def vetIfDeleteRelated (input existing : SRes) (tmfd : Bool) : Option String :=
  let em := marked existing.x
  let im := marked input.x
  let dataSame := input.r.data = existing.r.data
  if !im && em then some "remove-delts"
  else if tsValue existing.x ≠ "" ∧ tsValue existing.x ≠ tsValue input.x then some "modify-delts"
  else
    -- adding a deletion timestamp: nothing else may change
    let e1 : Option String :=
      if im && !em then
        if !metaSameButDelTs input.x existing.x then some "modify-meta"
        else if !dataSame then some "modify-data" else none
      else none
    match e1 with
    | some e => some e
    | none =>
      if im && em && metaSameButDelTs input.x existing.x && dataSame then some "noop-marked"
      else
        let e2 : Option String :=
          if im && em && hasFinalizers existing.x then
            if !metaSameButFins input.x existing.x then some "modify-meta"
            else if !dataSame then some "modify-data"
            else if !finalizerRemoved input.x existing.x then some "finalizer-not-removed" else none
          else none
        match e2 with
        | some e => some e
        | none =>
          let deleteRelated := (im && !em) || (im && em) || (finalizerRemoved input.x existing.x && dataSame)
          if tmfd && !deleteRelated then some "tenancy-write-blocked" else none

/-- `preserveDeferredDeletionMetadata` -/
def preserveDeferred (input existing : SExt) : SExt :=
  let i1 := if !marked input && marked existing then { input with delTs := existing.delTs } else input
  if i1.fins.isNone && existing.fins.isSome then { i1 with fins := existing.fins } else i1

/-- CE `v1EntMetaToV2Tenancy` for a namespace-scoped type -/
def defaultTen (t : Ten) : Ten :=
  { part := if t.part = [] then bDefault else t.part,
    ns := if t.ns = [] then bDefault else t.ns }

def defaultId (id : RID) : RID := { id with ten := defaultTen id.ten }

structure Hints where
  uid     : Bytes       -- ulid.Make() for a created resource's Uid
  gen     : String      -- ulid.Make() for the Generation
  tombUid : Bytes
  tombGen : String
  upd     : String      -- timestamppb.Now() of WriteStatus
  now     : String      -- time.Now() of markForDeletion
deriving DecidableEq, Repr, Inhabited

/-- result of one run of the closure handed to `retryCAS` -/
abbrev Att (α : Type) := SW × Sched × Except SErr α

def wresErr : WRes → SErr
  | .ok => .internal      -- not used
  | .cas => .aborted
  | .wrongUid => .wrongUid

/-! ### Write -/

/-- the decision part of one attempt of `Write`'s read-modify-write closure: the backend read(s), every check,
    and the resource that will be handed to `Backend.WriteCAS` (its `version` is the version presented to the
    backend) — or the error the attempt ends with before writing anything -/
def writePlan (w : SW) (req : SRes) (h : Hints) (tmfd : Bool) : Except SErr SRes :=
  let fin (input : SRes) : Except SErr SRes := .ok { input with x := { input.x with gen := h.gen } }
  match w.beRead req.r.id with
  | .notFound =>
    -- create path
    let input : SRes := { req with r := { req.r with id := { req.r.id with uid := h.uid } } }
    if !input.x.status.isEmpty then .error (.invalid "use-write-status")
    else if tmfd then .error (.invalid "tenancy-marked")
    else if marked input.x then .error (.invalid "delts-on-create")
    else
      match input.r.owner with
      | some o =>
        if o.uid = [] then
          match w.beRead o with
          | .notFound => .error (.invalid "owner-missing")
          | .gvMismatch _ => .error .internal
          | .found ow => fin { input with r := { input.r with owner := some ow.r.id } }
        else fin input
      | none => fin input
  | .found ex | .gvMismatch ex =>
    -- update path
    let input : SRes := { req with r := { req.r with id := ex.r.id } }
    let input : SRes :=
      if input.r.version = "" then
        { r := { input.r with version := ex.r.version }, x := preserveDeferred input.x ex.x }
      else input
    if input.r.version ≠ ex.r.version then .error .aborted
    else
      let input : SRes :=
        match input.r.owner, ex.r.owner with
        | some o, some eo => if o.uid = [] then { input with r := { input.r with owner := some { o with uid := eo.uid } } } else input
        | _, _ => input
      if input.r.owner ≠ ex.r.owner then .error (.invalid "owner-changed")
      else if !input.x.status.isEmpty && input.x.status ≠ ex.x.status then .error (.invalid "use-write-status")
      else
        let input : SRes := if input.x.status.isEmpty then { input with x := { input.x with status := ex.x.status } } else input
        match vetIfDeleteRelated input ex tmfd with
        | some why => .error (.invalid why)
        | none => fin input

/-- the write itself: whatever the schedule puts in front of it, then `Backend.WriteCAS` -/
def commitWrite (w : SW) (s : Sched) (input : SRes) : Att SRes :=
  let (w1, s1) := w.interfere s
  let (w2, res, stored) := w1.beWrite input
  match res with
  | .ok => (w2, s1, .ok stored)
  | e => (w2, s1, .error (wresErr e))

/-- one attempt of `Write`'s read-modify-write closure -/
def writeAttempt (w : SW) (s : Sched) (req : SRes) (h : Hints) (tmfd : Bool) : Att SRes :=
  match writePlan w req h tmfd with
  | .error e => (w, s, .error e)
  | .ok input => commitWrite w s input

/-- `retryCAS`: `fuel` further attempts are allowed after a CAS failure -/
def retry {α : Type} (attempt : SW → Sched → Att α) : Nat → SW → Sched → Att α
  | 0, w, s => attempt w s
  | n + 1, w, s =>
    match attempt w s with
    | (w', s', .error .aborted) => retry attempt n w' s'
    | r => r

/-- `maxAttempts - 1` -/
def retries (vsn : String) : Nat := if vsn = "" then 4 else 0

/-- `mutateAndValidate`: "check the user sent the correct type of data" — `Data.MessageIs(reg.Proto)` for the
    registration of the *request's* type. The protobuf message type of the payload is what the harness encodes in
    the payload number modulo 4 (0 = demo v2 Artist, 1 = demo v1 Artist, 2 = demo v2 Album). -/
def dataTypeOk (t : RType) (d : Nat) : Bool :=
  if t.kind = bArtist then (if t.gv = bV1 then d % 4 = 1 else d % 4 = 0)
  else if t.kind = bAlbum then d % 4 = 2
  else true

/-- `Server.Write` (well-formed request, ACLs allow): data type check, tenancy defaulting, then `retryCAS`
    around the closure -/
def SW.svcWrite (w : SW) (s : Sched) (req : SRes) (h : Hints) (tmfd : Bool) : Att SRes :=
  if !dataTypeOk req.r.id.typ req.r.data then (w, s, .error (.invalid "data-type")) else
  let req := { req with r := { req.r with id := defaultId req.r.id } }
  retry (fun w s => writeAttempt w s req h tmfd) (retries req.r.version) w s

/-! ### WriteStatus -/

def setStatus (k : String) (v : SStat) : List (String × SStat) → List (String × SStat)
  | [] => [(k, v)]
  | (k', v') :: rest =>
    if k' = k then (k, v) :: rest
    else if k < k' then (k, v) :: (k', v') :: rest
    else (k', v') :: setStatus k v rest

def statusAttempt (w : SW) (s : Sched) (id : RID) (key : String) (st : SStat) (vsn : String) (h : Hints) : Att SRes :=
  match w.beRead id with
  | .notFound => (w, s, .error .notFound)
  | .gvMismatch _ => (w, s, .error .internal)
  | .found r =>
    if vsn ≠ "" ∧ vsn ≠ r.r.version then (w, s, .error .aborted)
    else
      let r' : SRes := { r with x := { r.x with status := setStatus key { st with upd := h.upd } r.x.status } }
      let (w1, s1) := w.interfere s
      let (w2, res, stored) := w1.beWrite r'
      match res with
      | .ok => (w2, s1, .ok stored)
      | .cas => (w2, s1, .error .aborted)
      | .wrongUid => (w2, s1, .error .internal)     -- not in WriteStatus' error switch: Internal

/-- `Server.WriteStatus` -/
def SW.svcWriteStatus (w : SW) (s : Sched) (id : RID) (key : String) (st : SStat) (vsn : String) (h : Hints) : Att SRes :=
  if id.uid = [] then (w, s, .error (.invalid "required"))
  else
    let id := defaultId id
    match w.beRead id with
    | .notFound => (w, s, .error .notFound)
    | .gvMismatch _ => (w, s, .error .internal)
    | .found _ => retry (fun w s => statusAttempt w s id key st vsn h) (retries vsn) w s

/-! ### Delete -/

/-- The tombstone `maybeCreateTombstone` writes. `h.tombUid` is the value of the `ulid.Make()` call whose result
    got stored; once it is stored (an earlier attempt of this call wrote the tombstone), a further `ulid.Make()`
    returns something else — any other value behaves the same (`ErrWrongUid`, ignored). -/
def tombstoneFor (w : SW) (deleteId : RID) (h : Hints) : SRes :=
  let tid : RID := { typ := tombstoneType, ten := deleteId.ten, name := tombstoneName deleteId, uid := h.tombUid }
  let uid := match lookup (idKey tid) w.db.rows with
    | some t => if t.id.uid = h.tombUid then h.tombUid ++ [39] else h.tombUid
    | none => h.tombUid
  { r := { id := { tid with uid := uid },
           owner := none, version := "", data := 0 },
    x := { gen := h.tombGen, tomb := some deleteId } }

/-- which (id, version) `Delete` hands to `DeleteCAS`: the caller's — unless the version OR the uid is empty, in
    which case BOTH are replaced by the stored ones (so a by-name delete never presents the caller's version:
    known finding `svc:delete-by-name-ignores-version`) -/
def deleteTarget (id : RID) (vsn : String) (ex : SRes) : RID × String :=
  if vsn = "" ∨ id.uid = [] then (ex.r.id, ex.r.version) else (id, vsn)

def deleteAttempt (w : SW) (s : Sched) (id : RID) (vsn : String) (h : Hints) (tmfd : Bool) : Att Unit :=
  match w.beRead id with
  | .notFound => (w, s, .ok ())
  | .gvMismatch _ => (w, s, .error .internal)
  | .found ex =>
    let (deleteId, deleteVsn) := deleteTarget id vsn ex
    if hasFinalizers ex.x then
      if marked ex.x then (w, s, .ok ())
      else
        -- markForDeletion: a full `Write` of the resource just read + the timestamp (a CAS write: one attempt)
        match w.svcWrite s { ex with x := { ex.x with delTs := some h.now } } h tmfd with
        | (w', s', .ok _) => (w', s', .ok ())
        | (w', s', .error .aborted) => (w', s', .error .abortedStatus)
        | (w', s', .error e) => (w', s', .error e)
    else
      -- tombstone first (unless the resource is itself a tombstone) …
      let (w1, s1, tombErr) : SW × Sched × Bool :=
        if isTombstoneType deleteId.typ then (w, s, false)
        else
          let (wa, sa) := w.interfere s
          let (wb, res, _) := wa.beWrite (tombstoneFor wa deleteId h)
          (wb, sa, res == .cas)
      if tombErr then (w1, s1, .error .internal)
      else
        -- … then the CAS delete
        let (w2, s2) := w1.interfere s1
        let (w3, ok) := w2.beDelete deleteId deleteVsn
        (w3, s2, if ok then .ok () else .error .aborted)

/-- `Server.Delete` -/
def SW.svcDelete (w : SW) (s : Sched) (id : RID) (vsn : String) (h : Hints) (tmfd : Bool) : Att Unit :=
  let id := defaultId id
  retry (fun w s => deleteAttempt w s id vsn h tmfd) (retries vsn) w s

/-! ### Read / List / ListByOwner -/

def SW.svcRead (w : SW) (id : RID) : Except SErr SRes :=
  match w.beRead (defaultId id) with
  | .found r => .ok r
  | .notFound => .error .notFound
  | .gvMismatch _ => .error (.invalid "gv-mismatch")

/-- `Server.List`: backend list, then "filter out non-matching GroupVersion" -/
def SW.svcList (w : SW) (gv : Bytes) (q : Query) : List SRes :=
  let q := { q with part := if q.part = [] then bDefault else q.part, ns := if q.ns = [] then bDefault else q.ns }
  ((list w.db.rows q).filter fun r => r.id.typ.gv = gv).map w.full

def SW.svcListByOwner (w : SW) (owner : RID) : Except SErr (List SRes) :=
  if owner.uid = [] then .error (.invalid "required")
  else .ok ((listByOwner w.db.rows (defaultId owner)).map w.full)

def SW.dump (w : SW) : List SRes := w.db.rows.map w.full

end CV.Res.Svc
