/-
CV.PeerExport — model of the exporting side's duplicate-event suppression (property C17, exporter → importer tie).

Mirrors agent/grpc-external/services/peerstream
  * subscription_manager.go  `handleEvent`  (case exported-service-list: `syncNormalServices`, send the list,
                                             `cleanupEventVersions`; case exported-service: send the snapshot)
  * subscription_state.go    `sendPendingEvents` (skip an event whose hash equals `eventVersions[id]`),
                             `cleanupEventVersions` (forget the versions of services no longer watched)
restricted to plain services (no discovery chains / mesh gateways: `ConnectEnabled = false`).

A payload is identified with its hash (`hashProtobuf`: SHA-256 of the deterministic encoding; collision-freeness
is trusted), here a `Nat`. The exported-service list is identified with the list of names it carries.
Besides the manager's own state the model carries two ghost fields used by the theorems only:
  * `peer`    what the importing side holds after processing everything that was sent: the last snapshot sent
              per service, pruned by every list that was sent (`handleUpsertExportedServiceList`);
  * `offered` the last snapshot the watch of a service produced since that watch was (re)started.
The clean-up policy is a parameter so that the theorem and its counterexamples talk about the same function.
Core-only Lean.
-/
import CV.Proto
namespace CV.PeerX

abbrev Map := List (String × Nat)

def get (m : Map) (k : String) : Option Nat := (m.find? fun e => decide (e.1 = k)).map (·.2)
def set (m : Map) (k : String) (v : Nat) : Map := (k, v) :: m.filter fun e => decide (e.1 ≠ k)
def keep (m : Map) (p : String → Bool) : Map := m.filter fun e => p e.1

/-- when `handleEvent` calls `cleanupEventVersions` after an exported-service-list event -/
inductive Policy
  | always       -- the code as it is
  | ifShrunk     -- only when the number of watched services went down
  | never
deriving DecidableEq, Repr

structure St where
  watched  : List String := []            -- keys of `watchedServices`
  versions : Map := []                    -- `eventVersions` for the ids `service:<name>`
  listVer  : Option (List String) := none -- `eventVersions["exported-service-list"]`
  peer     : Map := []                    -- ghost: what the importer holds
  offered  : Map := []                    -- ghost: last snapshot produced by the running watch of a service
deriving Repr

inductive Ev
  | list (names : List String)            -- the exported-service list for the peer changed (or was re-read)
  | data (name : String) (h : Nat)        -- the watch of `name` produced a snapshot with hash `h`
deriving DecidableEq, Repr

def doClean (pol : Policy) (before after : Nat) : Bool :=
  match pol with
  | .always => true
  | .ifShrunk => decide (after < before)
  | .never => false

/-- one `handleEvent`; the Boolean says whether something was sent to the peer -/
def step (pol : Policy) (s : St) : Ev → St × Bool
  | .list names =>
    let watched' := names.eraseDups
    let sent := decide (s.listVer ≠ some names)
    let versions' := if doClean pol s.watched.length watched'.length then keep s.versions (fun n => decide (n ∈ watched'))
                     else s.versions
    ({ watched := watched'
       versions := versions'
       listVer := some names
       peer := if sent then keep s.peer (fun n => decide (n ∈ names)) else s.peer
       -- a service that stays watched keeps what its watch produced; a new watch starts from nothing
       offered := keep s.offered (fun n => decide (n ∈ s.watched ∧ n ∈ watched')) }, sent)
  | .data n h =>
    let offered' := if n ∈ s.watched then set s.offered n h else s.offered
    if get s.versions n = some h then ({ s with offered := offered' }, false)
    else ({ s with versions := set s.versions n h, peer := set s.peer n h, offered := offered' }, true)

def run (pol : Policy) (s : St) (evs : List Ev) : St := evs.foldl (fun s e => (step pol s e).1) s

end CV.PeerX
