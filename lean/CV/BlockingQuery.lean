/-
CV.BlockingQuery — model of `blockingquery.Query` (agent/blockingquery/blockingquery.go), the loop every
read endpoint runs through `Server.blockingQuery`, for a request with `MinQueryIndex > 0`:

    for {
        ws := memdb.NewWatchSet(); ws.Add(store.AbandonCh())
        err := query(ws, store); SetQueryMeta(responseMeta)         -- evaluate in the CURRENT state
        if responseMeta.Index > minQueryIndex { return }             -- something newer: answer
        if err := ws.WatchCtx(ctx); err != nil { return }            -- timeout: answer what we have
        (abandoned store => return)
    }

The store moves through states `0 … last` (one per committed write). The loop does not see every state:
it evaluates at the state current when it runs, sleeps until a channel of the WatchSet it built there is
closed, and re-evaluates at whatever state is current when it wakes (`sched`, any state not earlier than
the one that closed the channel). `ErrNotFound` / `ErrNotChanged` raise `minQueryIndex` to the index
just reported when the result did not change; they are modelled separately below (`loopF` / `runF`).
-/
namespace CV.BQ

/-- what the loop can observe of a run of the store -/
structure Trace (ρ : Type) where
  /-- index of the last state before the request times out -/
  last : Nat
  /-- the index `SetQueryMeta` leaves in the response when the query is evaluated in state `k` -/
  idx : Nat → Nat
  /-- the result of the query in state `k` -/
  res : Nat → ρ
  /-- `fired j k`: a channel of the WatchSet built while evaluating in state `j` is closed in state `k` -/
  fired : Nat → Nat → Bool
  /-- the state in which the loop re-evaluates after having been woken in state `k` -/
  sched : Nat → Nat

inductive Outcome
  | returned (st : Nat)        -- the loop answered with the result of state `st`
  | timeout (lastEval : Nat)   -- MaxQueryTime elapsed; the answer is the evaluation made in state `lastEval`
deriving DecidableEq, Repr

variable {ρ : Type}

/-- the first state after `c` (searching `k, k+1, …` with `n` states left) in which the WatchSet built in `c` has fired -/
def firstFired (t : Trace ρ) (c : Nat) : Nat → Nat → Option Nat
  | _, 0 => none
  | k, n + 1 => if t.fired c k then some k else firstFired t c (k + 1) n

/-- where the loop re-evaluates after being woken in `k`: not before `k`, not after `last` -/
def wakeAt (t : Trace ρ) (k : Nat) : Nat := max k (min (t.sched k) t.last)

/-- the loop, started (or re-started) in state `c`, with `fuel` iterations left -/
def loop (t : Trace ρ) (minIndex : Nat) : Nat → Nat → Outcome
  | 0, c => .timeout c
  | fuel + 1, c =>
    if t.idx c > minIndex then .returned c
    else match firstFired t c (c + 1) (t.last - c) with
      | none => .timeout c
      | some k => loop t minIndex fuel (wakeAt t k)

/-- `blockingquery.Query` entered while the store is in state `start` -/
def run (t : Trace ρ) (minIndex start : Nat) : Outcome := loop t minIndex (t.last + 1 - start) start


/-! ### the sentinel errors `ErrNotFound` / `ErrNotChanged`

    switch {
    case errors.Is(err, ErrNotFound):
        if notFound { minQueryIndex = responseMeta.GetIndex() }   // "query result has not changed"
        notFound = true
    case errors.Is(err, ErrNotChanged):
        if ranOnce { minQueryIndex = responseMeta.GetIndex() }
    }
    ranOnce = true

A query function may answer "nothing there" (`ErrNotFound`) or "same as my previous answer" (`ErrNotChanged`);
the loop then RAISES the index it blocks on to the one just reported, so that index movement caused by
unrelated writes does not wake the client. `Flags` says in which states the query function raises which
sentinel; `FlagsSound` is what its doc comment demands of the query function. -/

structure Flags where
  /-- the query function returns `ErrNotFound` when evaluated in state `k` -/
  notFound : Nat → Bool
  /-- evaluated in state `k`, right after its previous evaluation in state `j`, it returns `ErrNotChanged` -/
  notChanged : Nat → Nat → Bool

/-- loop state: the index blocked on, `notFound` seen before, the state of the previous evaluation (`none` = not run yet) -/
structure LoopSt where
  min : Nat
  sawNotFound : Bool
  prev : Option Nat

/-- one evaluation in state `c`: the updated loop state -/
def evalStep (t : Trace ρ) (f : Flags) (st : LoopSt) (c : Nat) : LoopSt :=
  if f.notFound c then
    { min := if st.sawNotFound then t.idx c else st.min, sawNotFound := true, prev := some c }
  else match st.prev with
    | some j => if f.notChanged j c then { st with min := t.idx c, prev := some c } else { st with prev := some c }
    | none => { st with prev := some c }

/-- the loop with sentinel handling -/
def loopF (t : Trace ρ) (f : Flags) : Nat → LoopSt → Nat → Outcome
  | 0, _, c => .timeout c
  | fuel + 1, st, c =>
    let st' := evalStep t f st c
    if t.idx c > st'.min then .returned c
    else match firstFired t c (c + 1) (t.last - c) with
      | none => .timeout c
      | some k => loopF t f fuel st' (wakeAt t k)

def runF (t : Trace ρ) (f : Flags) (minIndex start : Nat) : Outcome :=
  loopF t f (t.last + 1 - start) ⟨minIndex, false, none⟩ start

/-- `blockingquery.Query` from its entry: a request with `MinQueryIndex = 0` is a plain read (the query function
runs once, sentinels are swallowed, nothing blocks); otherwise the loop. -/
def query (t : Trace ρ) (f : Flags) (minIndex start : Nat) : Outcome :=
  if minIndex = 0 then .returned start else runF t f minIndex start

/-- no sentinel is ever raised -/
def noFlags : Flags := { notFound := fun _ => false, notChanged := fun _ _ => false }

/-! ### scripted runs: the tie to the real loop (round 5)

The harness drives the REAL `Server.blockingQuery` (→ `blockingquery.Query` + `Server.SetQueryMeta`) with a
scripted query function: its `k`-th call stores index `idx`, returns the sentinel `sent`, and either adds an
already-closed channel to the WatchSet (`woken`: the loop must evaluate again) or cancels the request's context
/ abandons the store (the loop must answer with what it has). A script is a `Trace` whose states are the
evaluations; the answer printed for the harness is computed by `query` (hence by `runF` / `loopF`, the
functions the theorems are about). -/

inductive Sentinel
  | none | notFound | notChanged
deriving DecidableEq, Repr

structure Eval where
  /-- the index the response carries after `SetQueryMeta` -/
  idx : Nat
  sent : Sentinel
  /-- a channel of the WatchSet of this evaluation is closed before the request ends -/
  woken : Bool
deriving Repr

def scriptTrace (es : List Eval) : Trace Unit where
  last := es.length - 1
  idx k := match es[k]? with
    | some e => e.idx
    | none => 0
  res _ := ()
  fired j k := k == j + 1 && (match es[j]? with
    | some e => e.woken
    | none => false)
  sched k := k

def scriptFlags (es : List Eval) : Flags where
  notFound k := match es[k]? with
    | some e => e.sent == .notFound
    | none => false
  notChanged _ k := match es[k]? with
    | some e => e.sent == .notChanged
    | none => false

/-- (number of evaluations, index of the answer) of a scripted request; `none` for the empty script -/
def scriptRun (minIndex : Nat) (es : List Eval) : Option (Nat × Nat) :=
  if es.isEmpty then none
  else
    let t := scriptTrace es
    match query t (scriptFlags es) minIndex 0 with
    | .returned c => some (c + 1, t.idx c)
    | .timeout c => some (c + 1, t.idx c)

end CV.BQ
