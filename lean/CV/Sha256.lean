/-
CV.Sha256 — executable SHA-256 (FIPS 180-4) over `Bytes = List Nat`, core-only Lean.

Used ONLY to instantiate the abstract digest function `H` of `CV.Tar` inside the C20
line-protocol engine, so that the model recomputes the very digests `crypto/sha256`
computes in `snapshot/archive.go`. The C20 theorems are stated for an arbitrary `H`;
nothing about SHA-256 is proved except the shape of its output (`sha256_length`,
`sha256_byte`), which is what `CV.Tar.DigestOK` asks for. Functional correctness of
this implementation is *tested* (`#guard` on the FIPS vectors below) and re-validated on
every correspondence run against the Go standard library (every accepted / rejected
verdict and every printed state digest depends on it).

The indexing `getD`s below are internal to the compression function (indices are
always in range: 64-entry schedule, 64-byte blocks of a padded message); they do not
stand for any rejected input of the modelled code.
-/
import CV.Proto
namespace CV.Sha256

def K : Array UInt32 := #[
  0x428a2f98, 0x71374491, 0xb5c0fbcf, 0xe9b5dba5, 0x3956c25b, 0x59f111f1, 0x923f82a4, 0xab1c5ed5,
  0xd807aa98, 0x12835b01, 0x243185be, 0x550c7dc3, 0x72be5d74, 0x80deb1fe, 0x9bdc06a7, 0xc19bf174,
  0xe49b69c1, 0xefbe4786, 0x0fc19dc6, 0x240ca1cc, 0x2de92c6f, 0x4a7484aa, 0x5cb0a9dc, 0x76f988da,
  0x983e5152, 0xa831c66d, 0xb00327c8, 0xbf597fc7, 0xc6e00bf3, 0xd5a79147, 0x06ca6351, 0x14292967,
  0x27b70a85, 0x2e1b2138, 0x4d2c6dfc, 0x53380d13, 0x650a7354, 0x766a0abb, 0x81c2c92e, 0x92722c85,
  0xa2bfe8a1, 0xa81a664b, 0xc24b8b70, 0xc76c51a3, 0xd192e819, 0xd6990624, 0xf40e3585, 0x106aa070,
  0x19a4c116, 0x1e376c08, 0x2748774c, 0x34b0bcb5, 0x391c0cb3, 0x4ed8aa4a, 0x5b9cca4f, 0x682e6ff3,
  0x748f82ee, 0x78a5636f, 0x84c87814, 0x8cc70208, 0x90befffa, 0xa4506ceb, 0xbef9a3f7, 0xc67178f2]

structure St where
  a : UInt32
  b : UInt32
  c : UInt32
  d : UInt32
  e : UInt32
  f : UInt32
  g : UInt32
  h : UInt32

def init : St :=
  ⟨0x6a09e667, 0xbb67ae85, 0x3c6ef372, 0xa54ff53a, 0x510e527f, 0x9b05688c, 0x1f83d9ab, 0x5be0cd19⟩

@[inline] def rotr (x : UInt32) (n : UInt32) : UInt32 := (x >>> n) ||| (x <<< (32 - n))

@[inline] def byteAt (m : ByteArray) (i : Nat) : UInt32 := if h : i < m.size then (m[i]'h).toUInt32 else 0

/-- the 64-word message schedule of the block starting at byte `off` -/
def schedule (m : ByteArray) (off : Nat) : Array UInt32 := Id.run do
  let mut w : Array UInt32 := Array.mkEmpty 64
  for i in [0:16] do
    let j := off + 4 * i
    w := w.push ((byteAt m j <<< 24) ||| (byteAt m (j + 1) <<< 16) ||| (byteAt m (j + 2) <<< 8) ||| byteAt m (j + 3))
  for i in [16:64] do
    let w15 := w.getD (i - 15) 0
    let w2 := w.getD (i - 2) 0
    let s0 := rotr w15 7 ^^^ rotr w15 18 ^^^ (w15 >>> 3)
    let s1 := rotr w2 17 ^^^ rotr w2 19 ^^^ (w2 >>> 10)
    w := w.push (w.getD (i - 16) 0 + s0 + w.getD (i - 7) 0 + s1)
  return w

def round (s : St) (k w : UInt32) : St :=
  let s1 := rotr s.e 6 ^^^ rotr s.e 11 ^^^ rotr s.e 25
  let ch := (s.e &&& s.f) ^^^ ((~~~ s.e) &&& s.g)
  let t1 := s.h + s1 + ch + k + w
  let s0 := rotr s.a 2 ^^^ rotr s.a 13 ^^^ rotr s.a 22
  let mj := (s.a &&& s.b) ^^^ (s.a &&& s.c) ^^^ (s.b &&& s.c)
  let t2 := s0 + mj
  ⟨t1 + t2, s.a, s.b, s.c, s.d + t1, s.e, s.f, s.g⟩

def compress (s : St) (m : ByteArray) (off : Nat) : St := Id.run do
  let w := schedule m off
  let mut t := s
  for i in [0:64] do
    t := round t (K.getD i 0) (w.getD i 0)
  return ⟨s.a + t.a, s.b + t.b, s.c + t.c, s.d + t.d, s.e + t.e, s.f + t.f, s.g + t.g, s.h + t.h⟩

/-- message ++ 0x80 ++ zeros ++ 64-bit big-endian bit length, a multiple of 64 bytes -/
def pad (msg : ByteArray) : ByteArray := Id.run do
  let n := msg.size
  let zeros := (119 - n % 64) % 64          -- so that n + 1 + zeros ≡ 56 (mod 64)
  let mut m := msg.push 0x80
  for _ in [0:zeros] do
    m := m.push 0
  let bits := 8 * n
  for i in [0:8] do
    m := m.push (UInt8.ofNat ((bits >>> (8 * (7 - i))) % 256))
  return m

def digestState (msg : ByteArray) : St := Id.run do
  let m := pad msg
  let mut s := init
  for b in [0:m.size / 64] do
    s := compress s m (64 * b)
  return s

def wordBytes (w : UInt32) : List Nat :=
  [(w.toNat / 16777216) % 256, (w.toNat / 65536) % 256, (w.toNat / 256) % 256, w.toNat % 256]

def stBytes (s : St) : List Nat :=
  wordBytes s.a ++ wordBytes s.b ++ wordBytes s.c ++ wordBytes s.d ++
  wordBytes s.e ++ wordBytes s.f ++ wordBytes s.g ++ wordBytes s.h

/-- SHA-256 of a byte list (entries are taken modulo 256) as a list of 32 bytes -/
def sha256 (bs : CV.Bytes) : CV.Bytes :=
  stBytes (digestState (ByteArray.mk (bs.map UInt8.ofNat).toArray))

theorem sha256_length (bs : CV.Bytes) : (sha256 bs).length = 32 := by
  simp [sha256, stBytes, wordBytes]

theorem sha256_byte (bs : CV.Bytes) : ∀ b ∈ sha256 bs, b < 256 := by
  intro b hb
  simp only [sha256, stBytes, wordBytes, List.mem_append, List.mem_cons, List.not_mem_nil, or_false] at hb
  omega

-- tests (FIPS 180-4 / NIST example vectors); executable checks, not theorems
#guard CV.hexOf (sha256 []) == "e3b0c44298fc1c149afbf4c8996fb92427ae41e4649b934ca495991b7852b855"
#guard CV.hexOf (sha256 [97, 98, 99]) == "ba7816bf8f01cfea414140de5dae2223b00361a396177a9cb410ff61f20015ad"
#guard CV.hexOf (sha256 ("abcdbcdecdefdefgefghfghighijhijkijkljklmklmnlmnomnopnopq".toUTF8.toList.map (·.toNat)))
  == "248d6a61d20638b8e5c026930c3e6039a33ce45964ff2167f6ecedd419db06c1"
#guard CV.hexOf (sha256 (List.replicate 1000 97))
  == "41edece42d63e8d9bf515a9ba6932e1c20cbc9f5a5d134645adb5db1b9737ea3"

end CV.Sha256
