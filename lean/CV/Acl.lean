/-
CV.Acl — model of ACL policy merging, the policy authorizer and token resolution through the
parsed-policy / authorizer caches (property C08).

Mirrors (consul CE: no namespaces / partitions, `EnterpriseRule` is empty)
  * acl/policy.go               `AccessLevelFromString`, `isPolicyValid`, `PolicyRules.Validate`,
                                `takesPrecedenceOver` (compares the lower-cased strings)
  * acl/policy_merger.go        `policyRulesMergeContext.merge` / `fill`, `MergePolicies`
  * acl/policy_authorizer.go    `insertPolicyIntoRadix`, `loadRules`, `getPolicy`, `enforce`,
                                `anyAllowed` / `allAllowed`, every `policyAuthorizer` method
  * acl/static_authorizer.go    `allowAll` / `denyAll` / `manageAll`
  * acl/chained_authorizer.go   `executeChain`
  * agent/structs/acl.go        `ACLPolicies.HashKey`, `resolveWithCache`, `Compile`,
                                `ACLServiceIdentity/ACLNodeIdentity.SyntheticPolicy`, `Deduplicate`
  * agent/structs/acl_cache.go  parsed-policy and authorizer caches (as association lists)
  * agent/consul/acl.go         `ResolveToken` → `resolvePoliciesForIdentity` (`dedupeStringSlice`,
                                `collectPoliciesForIdentity`, `filterPoliciesByScope`) → `Compile` → chain

Modelling decisions
  * A policy string is the level it lower-cases to (`PStr.lvl`), the empty string, or anything else
    (`bad`): every function of the Go code that looks at a policy string lower-cases it first.
  * Resource names are byte strings (`Bytes`).
  * armon/go-radix is modelled, not verified: a tree is an association list with distinct keys;
    `Get` = lookup, `WalkPath p` = the entries whose key is a prefix of `p` in order of increasing
    length (from the root down), `Walk` / `WalkPrefix` = a traversal with early exit (`List.any`;
    the visiting order of the real tree is the byte order of the keys — every use in the code is an
    existence test, theorems show the order does not matter).
  * The fourteen rule lists of `PolicyRules` are one list of `Rule`s tagged with kind and
    exact/prefix, kept in source order (each (kind, prefix?) slot has its own Go map, so only the
    relative order of rules of the same slot can matter). The deprecated identity rules are dropped
    by `Validate` and never loaded by the authorizer: not modelled.
  * Pointer mutation → value return. The merger copies a service rule before updating it (the
    repaired code): merge contexts are plain values.
  * Content hashes (blake2b over name, description, rules, datacenters) are modelled by the content
    itself (`CKey`): collision freeness is trusted. LRU eviction is not modelled (a cache only ever
    loses entries by eviction; `CacheInv` is closed under removal, see Proofs).
Core-only Lean; no Mathlib.
-/
import CV.Proto
namespace CV.Acl

/-! ### access levels, policy strings, enforcement decisions -/

/-- `acl.AccessLevel` without `AccessUnknown` -/
inductive Access | deny | read | list | write
deriving DecidableEq, Repr

/-- `acl.EnforcementDecision` -/
inductive Dec | deny | allow | dflt
deriving DecidableEq, Repr

/-- a policy string as the Go code sees it: `""`, a string that lower-cases to one of the four
    level names, or any other string -/
inductive PStr | empty | bad | lvl (a : Access)
deriving DecidableEq, Repr

/-- `AccessLevelFromString` (error ⇒ `none`) -/
def PStr.level : PStr → Option Access
  | .lvl a => some a
  | _ => none

/-- `takesPrecedenceOver(a, b)`: deny > write > list > read > anything else -/
def takesPrecedenceOver (a b : PStr) : Bool :=
  if a = .lvl .deny then true else if b = .lvl .deny then false
  else if a = .lvl .write then true else if b = .lvl .write then false
  else if a = .lvl .list then true else if b = .lvl .list then false
  else if a = .lvl .read then true else if b = .lvl .read then false
  else false

/-- `enforce(rule, requiredPermission)` -/
def enforce (rule req : Access) : Dec :=
  match rule with
  | .write => .allow
  | .list => if req = .list ∨ req = .read then .allow else .deny
  | .read => if req = .read then .allow else .deny
  | .deny => .deny

/-! ### policies -/

inductive Kind | agent | key | node | service | session | event | query
deriving DecidableEq, Repr

/-- one rule block of a policy (`AgentRule`, `KeyRule`, `NodeRule`, `ServiceRule`, …);
    `intent` is `ServiceRule.Intentions` and `.empty` for the other kinds -/
structure Rule where
  kind : Kind
  pfx : Bool
  name : Bytes
  pol : PStr
  intent : PStr
deriving DecidableEq, Repr

/-- `acl.Policy` (CE): the scalar rules and the rule blocks in source order -/
structure Policy where
  acl : PStr
  keyring : PStr
  operator : PStr
  mesh : PStr
  peering : PStr
  rules : List Rule
deriving DecidableEq, Repr

def Policy.nil : Policy := ⟨.empty, .empty, .empty, .empty, .empty, []⟩

/-- `isPolicyValid` -/
def isPolicyValid (p : PStr) (allowList : Bool) : Bool :=
  match p.level with
  | none => false
  | some a => !(a = .list && !allowList)

def scalarValid (p : PStr) : Bool := p = .empty || isPolicyValid p false

/-- the per-rule checks of `Validate`; rules of the other kinds have no `Intentions` field at all
    (representation invariant of `Rule`: `intent = .empty`) -/
def ruleValid (r : Rule) : Bool :=
  isPolicyValid r.pol (r.kind = .key) &&
  (if r.kind = .service then r.intent = .empty || isPolicyValid r.intent false else r.intent = .empty)

/-- `PolicyRules.Validate` -/
def Policy.valid (p : Policy) : Bool :=
  scalarValid p.acl && scalarValid p.keyring && scalarValid p.operator && scalarValid p.mesh &&
  scalarValid p.peering && p.rules.all ruleValid

/-- `NewPolicyFromSource` after HCL decoding: validation only (HCL itself is exercised on the Go side) -/
def parse (p : Policy) : Option Policy := if p.valid then some p else none

/-! ### merging (policy_merger.go) -/

def sameSlot (a b : Rule) : Bool := a.kind = b.kind && a.pfx = b.pfx && a.name = b.name

/-- what `merge` leaves in the map slot that holds `e` when rule `r` of the same slot arrives -/
def combine (e r : Rule) : Rule :=
  if r.kind = .service then
    { e with pol := if takesPrecedenceOver r.pol e.pol then r.pol else e.pol,
             intent := if takesPrecedenceOver r.intent e.intent then r.intent else e.intent }
  else if takesPrecedenceOver r.pol e.pol then r else e

/-- one rule into the merge context (an association list with distinct slots, insertion order) -/
def mergeRule (r : Rule) : List Rule → List Rule
  | [] => [r]
  | e :: es => if sameSlot e r then combine e r :: es else e :: mergeRule r es

def mergeScalar (cur new : PStr) : PStr := if takesPrecedenceOver new cur then new else cur

/-- `policyRulesMergeContext.merge` -/
def mergePolicy (ctx p : Policy) : Policy :=
  { acl := mergeScalar ctx.acl p.acl, keyring := mergeScalar ctx.keyring p.keyring,
    operator := mergeScalar ctx.operator p.operator, mesh := mergeScalar ctx.mesh p.mesh,
    peering := mergeScalar ctx.peering p.peering,
    rules := p.rules.foldl (fun c r => mergeRule r c) ctx.rules }

/-- `MergePolicies` -/
def mergePolicies (ps : List Policy) : Policy := ps.foldl mergePolicy Policy.nil

/-! ### the policy authorizer (policy_authorizer.go) -/

/-- `policyAuthorizerRadixLeaf` -/
structure Leaf where
  exact : Option Access
  pre : Option Access
deriving DecidableEq, Repr

abbrev Tree := List (Bytes × Leaf)

def Tree.get (t : Tree) (k : Bytes) : Option Leaf := (t.find? fun e => e.1 = k).map (·.2)

def Leaf.set (l : Leaf) (pfx : Bool) (a : Access) : Leaf :=
  if pfx then { l with pre := some a } else { l with exact := some a }

/-- `insertPolicyIntoRadix` -/
def Tree.insert (k : Bytes) (pfx : Bool) (a : Access) : Tree → Tree
  | [] => [(k, (Leaf.mk none none).set pfx a)]
  | e :: es => if e.1 = k then (e.1, e.2.set pfx a) :: es else e :: Tree.insert k pfx a es

structure Authz where
  aclR : Option Access
  keyringR : Option Access
  operatorR : Option Access
  meshR : Option Access
  peeringR : Option Access
  agent : Tree
  intention : Tree
  tp : Tree            -- trafficPermissionsRules: never filled in CE
  key : Tree
  node : Tree
  service : Tree
  session : Tree
  event : Tree
  query : Tree
deriving DecidableEq, Repr

/-- the intention level a service rule implies (`loadRules`) -/
def intentionOf (r : Rule) : PStr :=
  if r.intent = .empty then
    (if r.pol = .lvl .read ∨ r.pol = .lvl .write then .lvl .read else .lvl .deny)
  else r.intent

/-- load the rules of one (kind, exact/prefix) list into a tree; `none` = `AccessLevelFromString` failed -/
def loadList (f : Rule → PStr) (t : Tree) : List Rule → Option Tree
  | [] => some t
  | r :: rs => match (f r).level with
      | none => none
      | some a => loadList f (t.insert r.name r.pfx a) rs

def slotRules (rs : List Rule) (k : Kind) (pfx : Bool) : List Rule :=
  rs.filter fun r => r.kind = k && r.pfx = pfx

/-- exact rules first, then prefix rules — the order of `loadRules` -/
def loadKind (f : Rule → PStr) (rs : List Rule) (k : Kind) : Option Tree :=
  (loadList f [] (slotRules rs k false)).bind fun t => loadList f t (slotRules rs k true)

def loadScalar (p : PStr) : Option (Option Access) :=
  if p = .empty then some none else p.level.map some

/-- `newPolicyAuthorizerFromRules` / `loadRules` -/
def loadRules (m : Policy) : Option Authz := do
  let agent ← loadKind (·.pol) m.rules .agent
  let key ← loadKind (·.pol) m.rules .key
  let node ← loadKind (·.pol) m.rules .node
  let service ← loadKind (·.pol) m.rules .service
  let intention ← loadKind intentionOf m.rules .service
  let session ← loadKind (·.pol) m.rules .session
  let event ← loadKind (·.pol) m.rules .event
  let query ← loadKind (·.pol) m.rules .query
  let aclR ← loadScalar m.acl
  let keyringR ← loadScalar m.keyring
  let operatorR ← loadScalar m.operator
  let meshR ← loadScalar m.mesh
  let peeringR ← loadScalar m.peering
  pure { aclR, keyringR, operatorR, meshR, peeringR, agent, intention, tp := [], key, node,
         service, session, event, query }

/-- `newPolicyAuthorizer` -/
def newPolicyAuthorizer (ps : List Policy) : Option Authz := loadRules (mergePolicies ps)

/-- the keys `WalkPath seg` can visit: every prefix of `seg`, shortest first -/
def pathKeys : Bytes → List Bytes
  | [] => [[]]
  | a :: l => [] :: (pathKeys l).map (a :: ·)

/-- the entries `WalkPath seg` visits, root first -/
def Tree.path (t : Tree) (seg : Bytes) : List (Bytes × Leaf) :=
  (pathKeys seg).filterMap fun k => (t.get k).map fun l => (k, l)

/-- the callback of `getPolicy` run over the visited entries -/
def getPolicyGo (seg : Bytes) : List (Bytes × Leaf) → Option Access → Option Access
  | [], cur => cur
  | (k, l) :: rest, cur =>
      if l.exact.isSome ∧ k = seg then l.exact
      else getPolicyGo seg rest (if l.pre.isSome then l.pre else cur)

/-- `getPolicy(segment, tree)` -/
def getPolicy (t : Tree) (seg : Bytes) : Option Access := getPolicyGo seg (t.path seg) none

def enforceOpt (r : Option Access) (req : Access) : Dec :=
  match r with
  | some a => enforce a req
  | none => .dflt

/-- the common shape `if rule, ok := getPolicy(..); ok { return enforce(..) }; return Default` -/
def check (t : Tree) (seg : Bytes) (req : Access) : Dec := enforceOpt (getPolicy t seg) req

/-- the per-leaf callback of `policyAuthorizer.anyAllowed` -/
def anyLeaf (l : Leaf) (prefixOnly : Bool) (req : Access) : Dec :=
  let d := enforceOpt l.pre req
  if prefixOnly || d = .allow || l.exact.isNone then d else enforceOpt l.exact req

/-- the per-leaf callback of `policyAuthorizer.allAllowed` -/
def allLeaf (l : Leaf) (prefixOnly : Bool) (req : Access) : Dec :=
  let pd := enforceOpt l.pre req
  if prefixOnly || pd = .deny || l.exact.isNone then pd
  else
    let d := enforceOpt l.exact req
    if d = .dflt then pd else d

/-- `anyAllowed(tree, enforceFn)` -/
def anyAllowed (t : Tree) (req : Access) : Dec :=
  let d0 := match t.get [] with
    | some l => anyLeaf l true req
    | none => .dflt
  if d0 = .allow then .allow
  else if t.any (fun e => anyLeaf e.2 false req = .allow) then .allow else d0

/-- `allAllowed(tree, enforceFn)` -/
def allAllowed (t : Tree) (req : Access) : Dec :=
  let d0 := match t.get [] with
    | some l => allLeaf l true req
    | none => .dflt
  if d0 = .deny then .deny
  else if t.any (fun e => allLeaf e.2 false req = .deny) then .deny else d0

def star : Bytes := [42]

/-- the last prefix rule on the path decides `baseAccess` (`KeyWritePrefix`, `ServiceReadPrefix`) -/
def lastPrefixOnPath (t : Tree) (seg : Bytes) : Option Access :=
  (t.path seg).foldl (fun cur e => if e.2.pre.isSome then e.2.pre else cur) none

def notWrite (o : Option Access) : Bool := match o with | some a => a ≠ .write | none => false
def notReadable (o : Option Access) : Bool :=
  match o with | some a => a ≠ .read ∧ a ≠ .write | none => false

/-- `KeyWritePrefix` -/
def keyWritePrefix (t : Tree) (p : Bytes) : Dec :=
  let base : Dec := match lastPrefixOnPath t p with
    | some a => if a ≠ .write then .deny else .allow
    | none => .dflt
  if base = .deny then .deny
  else if t.any (fun e => p.isPrefixOf e.1 && (notWrite e.2.pre || notWrite e.2.exact)) then .deny
  else base

/-- `ServiceReadPrefix` -/
def serviceReadPrefix (t : Tree) (p : Bytes) : Dec :=
  let acc : Dec := match lastPrefixOnPath t p with
    | some a => if a = .read ∨ a = .write then .allow else .deny
    | none => .dflt
  if t.any (fun e => p.isPrefixOf e.1 && (notReadable e.2.pre || notReadable e.2.exact)) then .deny
  else acc

/-! ### requests and decisions -/

/-- every method of `acl.Authorizer`; `peer = true` = the context names a peer -/
inductive Req
  | aclRead | aclWrite | snapshot | intentionDefaultAllow
  | keyringRead | keyringWrite | meshRead | meshWrite | peeringRead | peeringWrite
  | operatorRead | operatorWrite | nodeReadAll | serviceReadAll | serviceWriteAny
  | agentRead (n : Bytes) | agentWrite (n : Bytes) | eventRead (n : Bytes) | eventWrite (n : Bytes)
  | intentionRead (n : Bytes) | intentionWrite (n : Bytes)
  | tpRead (n : Bytes) | tpWrite (n : Bytes)
  | keyRead (n : Bytes) | keyList (n : Bytes) | keyWrite (n : Bytes) | keyWritePrefix (n : Bytes)
  | nodeRead (n : Bytes) (peer : Bool) | nodeWrite (n : Bytes)
  | queryRead (n : Bytes) | queryWrite (n : Bytes)
  | serviceRead (n : Bytes) (peer : Bool) | serviceReadPrefix (n : Bytes) | serviceWrite (n : Bytes)
  | sessionRead (n : Bytes) | sessionWrite (n : Bytes)
deriving DecidableEq, Repr

def intentionLike (t : Tree) (n : Bytes) (req : Access) : Dec :=
  if n = star then (if req = .read then anyAllowed t .read else allAllowed t .write)
  else check t n req

/-- the decision of the `policyAuthorizer` -/
def Authz.decide (z : Authz) : Req → Dec
  | .aclRead => enforceOpt z.aclR .read
  | .aclWrite => enforceOpt z.aclR .write
  | .snapshot => enforceOpt z.aclR .write
  | .intentionDefaultAllow => .dflt
  | .keyringRead => enforceOpt z.keyringR .read
  | .keyringWrite => enforceOpt z.keyringR .write
  | .operatorRead => enforceOpt z.operatorR .read
  | .operatorWrite => enforceOpt z.operatorR .write
  | .meshRead => if z.meshR.isSome then enforceOpt z.meshR .read else enforceOpt z.operatorR .read
  | .meshWrite => if z.meshR.isSome then enforceOpt z.meshR .write else enforceOpt z.operatorR .write
  | .peeringRead => if z.peeringR.isSome then enforceOpt z.peeringR .read else enforceOpt z.operatorR .read
  | .peeringWrite => if z.peeringR.isSome then enforceOpt z.peeringR .write else enforceOpt z.operatorR .write
  | .nodeReadAll => allAllowed z.node .read
  | .serviceReadAll => allAllowed z.service .read
  | .serviceWriteAny => anyAllowed z.service .write
  | .agentRead n => check z.agent n .read
  | .agentWrite n => check z.agent n .write
  | .eventRead n => check z.event n .read
  | .eventWrite n => check z.event n .write
  | .intentionRead n => intentionLike z.intention n .read
  | .intentionWrite n => intentionLike z.intention n .write
  | .tpRead n => intentionLike z.tp n .read
  | .tpWrite n => intentionLike z.tp n .write
  | .keyRead n => check z.key n .read
  | .keyList n => check z.key n .list
  | .keyWrite n => check z.key n .write      -- CE: the enterprise check after Allow is `defaultIsAllow(Default)` = Allow
  | .keyWritePrefix n => keyWritePrefix z.key n
  | .nodeRead n peer =>
      if peer then (if anyAllowed z.service .write = .allow then .allow else allAllowed z.node .read)
      else check z.node n .read
  | .nodeWrite n => check z.node n .write
  | .queryRead n => check z.query n .read
  | .queryWrite n => check z.query n .write
  | .serviceRead n peer =>
      if peer then (if anyAllowed z.service .write = .allow then .allow else allAllowed z.service .read)
      else check z.service n .read
  | .serviceReadPrefix n => serviceReadPrefix z.service n
  | .serviceWrite n => check z.service n .write
  | .sessionRead n => check z.session n .read
  | .sessionWrite n => check z.session n .write

/-- `staticAuthorizer`: `RootAuthorizer("allow" | "deny" | "manage")` -/
inductive Static | allowAll | denyAll | manageAll
deriving DecidableEq, Repr

def Static.allowManage : Static → Bool | .manageAll => true | _ => false
def Static.defaultAllow : Static → Bool | .denyAll => false | _ => true

def Req.isManage : Req → Bool
  | .aclRead | .aclWrite | .snapshot => true
  | _ => false

def Static.decide (s : Static) (r : Req) : Dec :=
  if (if r.isManage then s.allowManage else s.defaultAllow) then .allow else .deny

/-- `ChainedAuthorizer.executeChain` over `[policy authorizer, default]` -/
def chain (z : Authz) (d : Static) (r : Req) : Dec :=
  match z.decide r with
  | .dflt => (match d.decide r with | .dflt => .deny | x => x)
  | x => x

/-- the decision for a token holding policies `ps` under default `d`
    (`NewPolicyAuthorizerWithDefaults`); `none` = the authorizer could not be built -/
def authorize (ps : List Policy) (d : Static) (r : Req) : Option Dec :=
  (newPolicyAuthorizer ps).map fun z => chain z d r

/-! ### policy documents, caches, Compile (agent/structs/acl.go) -/

/-- `structs.ACLPolicy` as far as resolution looks at it. `tag` stands for the fields that enter the
    content hash but not the decision (Name, Description, the concrete rule text) -/
structure Doc where
  id : Bytes
  modIdx : Nat
  tag : Nat
  dcs : List Bytes
  rules : Policy
deriving DecidableEq, Repr

/-- what `ACLPolicy.Hash` is a hash of -/
structure CKey where
  tag : Nat
  dcs : List Bytes
  rules : Policy
deriving DecidableEq, Repr

def Doc.ckey (d : Doc) : CKey := ⟨d.tag, d.dcs, d.rules⟩

/-- `ACLPolicies.HashKey`: IDs and modify indexes, in order -/
abbrev AKey := List (Bytes × Nat)
def hashKey (ds : List Doc) : AKey := ds.map fun d => (d.id, d.modIdx)

structure Caches where
  parsed : List (CKey × Policy)
  authz : List (AKey × Authz)
deriving Repr

def Caches.empty : Caches := ⟨[], []⟩

def Caches.getParsed (c : Caches) (k : CKey) : Option Policy := (c.parsed.find? fun e => e.1 = k).map (·.2)
def Caches.getAuthz (c : Caches) (k : AKey) : Option Authz := (c.authz.find? fun e => e.1 = k).map (·.2)
def Caches.putParsed (c : Caches) (k : CKey) (p : Policy) : Caches :=
  { c with parsed := (k, p) :: c.parsed.filter fun e => e.1 ≠ k }
def Caches.putAuthz (c : Caches) (k : AKey) (z : Authz) : Caches :=
  { c with authz := (k, z) :: c.authz.filter fun e => e.1 ≠ k }

/-- `resolveWithCache`: returns the caches (updated even when a later policy fails to parse),
    the parsed policies, and the number of parsed-cache hits -/
def resolveWithCache (c : Caches) : List Doc → Caches × Option (List Policy) × Nat
  | [] => (c, some [], 0)
  | d :: ds =>
    match c.getParsed d.ckey with
    | some p =>
      let (c', r, h) := resolveWithCache c ds
      (c', r.map (p :: ·), h + 1)
    | none =>
      match parse d.rules with
      | none => (c, none, 0)
      | some p =>
        let (c', r, h) := resolveWithCache (c.putParsed d.ckey p) ds
        (c', r.map (p :: ·), h)

structure CompileOut where
  caches : Caches
  authz : Option Authz
  hit : Bool          -- authorizer cache hit
  parsedHits : Nat
deriving Repr

/-- `ACLPolicies.Compile` -/
def compile (c : Caches) (ds : List Doc) : CompileOut :=
  match c.getAuthz (hashKey ds) with
  | some z => ⟨c, some z, true, 0⟩
  | none =>
    let (c', ps, h) := resolveWithCache c ds
    match ps with
    | none => ⟨c', none, false, h⟩
    | some ps =>
      match newPolicyAuthorizer ps with
      | none => ⟨c', none, false, h⟩
      | some z => ⟨c'.putAuthz (hashKey ds) z, some z, false, h⟩

/-- parse every document (no cache) -/
def parseAll : List Doc → Option (List Policy)
  | [] => some []
  | d :: ds =>
    match parse d.rules with
    | none => none
    | some p => (parseAll ds).map (p :: ·)

/-- what `Compile` computes without caches: parse every document, merge, load -/
def compileFresh (ds : List Doc) : Option Authz := (parseAll ds).bind newPolicyAuthorizer

/-! ### identities, roles, tokens and ResolveToken (agent/consul/acl.go) -/

structure SvcId where
  name : Bytes
  dcs : List Bytes
deriving DecidableEq, Repr

structure NodeId where
  name : Bytes
  dc : Bytes
deriving DecidableEq, Repr

/-- the six builtin templates (`aclTemplatedPoliciesList`, agent/structs/acl_templated_policy.go) -/
inductive Tmpl | service | node | dns | nomadServer | apiGateway | nomadClient
deriving DecidableEq, Repr

/-- templates with a non-empty schema: their variables (`name`) are rendered into the rules and take
    part in `ACLTemplatedPolicies.Deduplicate`; the other templates ignore their variables -/
def Tmpl.hasVars : Tmpl → Bool
  | .service | .node | .apiGateway => true
  | _ => false

def Tmpl.tag : Tmpl → Nat
  | .service => 0 | .node => 1 | .dns => 2 | .nomadServer => 3 | .apiGateway => 4 | .nomadClient => 5

/-- `structs.ACLTemplatedPolicy` -/
structure TpId where
  tmpl : Tmpl
  name : Bytes
  dcs : List Bytes
deriving DecidableEq, Repr

/-- what the template is rendered with (nothing for the templates without variables) -/
def TpId.keyName (t : TpId) : Bytes := if t.tmpl.hasVars then t.name else []

/-- template name and, for templates with a schema, the variables -/
def TpId.key (t : TpId) : Tmpl × Bytes := (t.tmpl, t.keyName)

/-- `sameDatacenterScope`: the two lists name the same set of datacenters -/
def sameScope (a b : List Bytes) : Bool := a.all (fun x => b.contains x) && b.all (fun x => a.contains x)

/-- the duplicate test of `ACLTemplatedPolicies.Deduplicate` (/repo 13d014a): same template, same
    datacenter scope (as a set) and — for templates with a schema — the same variables -/
def TpId.dup (s t : TpId) : Bool := s.tmpl = t.tmpl && sameScope s.dcs t.dcs && s.keyName = t.keyName

structure Role where
  id : Bytes
  policies : List Bytes
  svcs : List SvcId
  nodes : List NodeId
  tps : List TpId
deriving DecidableEq, Repr

structure Token where
  secret : Bytes
  policies : List Bytes
  roles : List Bytes
  svcs : List SvcId
  nodes : List NodeId
  tps : List TpId
deriving DecidableEq, Repr

/-- the state store behind the resolver backend (server mode: everything resolves locally) -/
structure Store where
  docs : List Doc
  roles : List Role
  tokens : List Token
deriving Repr

def Store.empty : Store := ⟨[], [], []⟩
def Store.doc (s : Store) (id : Bytes) : Option Doc := s.docs.find? fun d => d.id = id
def Store.role (s : Store) (id : Bytes) : Option Role := s.roles.find? fun r => r.id = id
def Store.token (s : Store) (secret : Bytes) : Option Token := s.tokens.find? fun t => t.secret = secret
def Store.putDoc (s : Store) (d : Doc) : Store := { s with docs := d :: s.docs.filter fun x => x.id ≠ d.id }
def Store.delDoc (s : Store) (id : Bytes) : Store := { s with docs := s.docs.filter fun x => x.id ≠ id }
def Store.putRole (s : Store) (r : Role) : Store := { s with roles := r :: s.roles.filter fun x => x.id ≠ r.id }
def Store.delRole (s : Store) (id : Bytes) : Store := { s with roles := s.roles.filter fun x => x.id ≠ id }
def Store.delToken (s : Store) (secret : Bytes) : Store :=
  { s with tokens := s.tokens.filter fun x => x.secret ≠ secret }
def Store.putToken (s : Store) (t : Token) : Store :=
  { s with tokens := t :: s.tokens.filter fun x => x.secret ≠ t.secret }

/-- insertion into a strictly sorted list, dropping duplicates -/
def insertSorted (x : Bytes) : List Bytes → List Bytes
  | [] => [x]
  | y :: ys => if x = y then y :: ys else if x < y then x :: y :: ys else y :: insertSorted x ys

/-- `dedupeStringSlice`: `sort.Strings` then drop adjacent duplicates -/
def dedupeSorted (xs : List Bytes) : List Bytes := xs.foldr insertSorted []

/-- one step of `ACLServiceIdentities.Deduplicate`: merge the datacenters into the entry of the
    same service name, or add a new entry -/
def addSvc (s : SvcId) : List SvcId → List SvcId
  | [] => [⟨s.name, dedupeSorted s.dcs⟩]
  | e :: es => if e.name = s.name then ⟨e.name, dedupeSorted (s.dcs ++ e.dcs)⟩ :: es else e :: addSvc s es

/-- `ACLServiceIdentities.Deduplicate`: one entry per service name, datacenters merged.
    Go returns the entries in map order and keeps duplicate datacenter names of a single entry;
    the model keeps first-occurrence order and a duplicate-free datacenter list (neither is visible
    in a decision: `merge_perm`, `mergePolicies` is idempotent). -/
def dedupSvcs (xs : List SvcId) : List SvcId := xs.foldl (fun acc s => addSvc s acc) []

/-- `ACLNodeIdentities.Deduplicate` -/
def dedupNodes (xs : List NodeId) : List NodeId :=
  xs.foldl (fun acc n => if n ∈ acc then acc else acc ++ [n]) []

/-- "-sidecar-proxy" -/
def sidecarSuffix : Bytes := [45, 115, 105, 100, 101, 99, 97, 114, 45, 112, 114, 111, 120, 121]
#guard sidecarSuffix == "-sidecar-proxy".toUTF8.toList.map (·.toNat)

def wr (k : Kind) (pfx : Bool) (n : Bytes) (a : Access) : Rule := ⟨k, pfx, n, .lvl a, .empty⟩

/-- policies/ce/service.hcl -/
def svcTemplate (n : Bytes) : Policy :=
  { Policy.nil with rules := [wr .service false n .write, wr .service false (n ++ sidecarSuffix) .write,
                              wr .service true [] .read, wr .node true [] .read] }

/-- policies/ce/node.hcl -/
def nodeTemplate (n : Bytes) : Policy :=
  { Policy.nil with rules := [wr .node false n .write, wr .service true [] .read] }

/-- `SyntheticPolicy`: the ID is a function of the rendered rules (tagged here by the template),
    ModifyIndex 0 -/
def svcDoc (s : SvcId) : Doc := ⟨0 :: s.name, 0, 0, s.dcs, svcTemplate s.name⟩
def nodeDoc (n : NodeId) : Doc := ⟨1 :: n.name, 0, 0, [n.dc], nodeTemplate n.name⟩

/-- policies/ce/{service,node,dns,nomad-server,api-gateway,nomad-client}.hcl rendered with `n` -/
def tpTemplate : Tmpl → Bytes → Policy
  | .service, n => svcTemplate n
  | .node, n => nodeTemplate n
  | .dns, _ => { Policy.nil with rules := [wr .node true [] .read, wr .service true [] .read, wr .query true [] .read] }
  | .nomadServer, _ =>
    { Policy.nil with acl := .lvl .write,
                      rules := [wr .agent true [] .read, wr .node true [] .read, wr .service true [] .write] }
  | .apiGateway, n =>
    { Policy.nil with mesh := .lvl .read,
                      rules := [wr .node true [] .read, wr .service true [] .read, wr .service false n .write] }
  | .nomadClient, _ =>
    { Policy.nil with rules := [wr .agent true [] .read, wr .node true [] .read, wr .service true [] .write,
                                wr .key true [] .read] }

/-- `ACLTemplatedPolicy.SyntheticPolicy`: service / node identities are rendered through the same
    templates, so `builtin/service{web}` and the service identity `web` give the same policy id -/
def tpDoc (t : TpId) : Doc := ⟨t.tmpl.tag :: t.keyName, 0, 0, t.dcs, tpTemplate t.tmpl t.keyName⟩

/-- `ACLTemplatedPolicies.Deduplicate`: an entry is dropped iff an entry kept before it is a duplicate
    of it (`seen` = the entries kept so far, the Go slice `out`); input order is preserved -/
def dedupTpsAux (seen : List TpId) : List TpId → List TpId
  | [] => []
  | t :: ts => if seen.any (fun s => s.dup t) then dedupTpsAux seen ts else t :: dedupTpsAux (t :: seen) ts

def dedupTps (xs : List TpId) : List TpId := dedupTpsAux [] xs

/-- the synthetic policies of `resolvePoliciesForIdentity` -/
def synthDocs (t : Token) (roles : List Role) : List Doc :=
  (dedupSvcs (t.svcs ++ roles.flatMap (·.svcs))).map svcDoc ++
  (dedupNodes (t.nodes ++ roles.flatMap (·.nodes))).map nodeDoc ++
  (dedupTps (t.tps ++ roles.flatMap (·.tps))).map tpDoc

/-- the early return of `resolvePoliciesForIdentity`: nothing is linked -/
def Token.noLinks (t : Token) : Bool :=
  t.policies.isEmpty && t.svcs.isEmpty && t.roles.isEmpty && t.nodes.isEmpty && t.tps.isEmpty

/-- `filterPoliciesByScope` (a policy is appended once per matching datacenter entry, as in the code) -/
def filterByScope (dc : Bytes) (ds : List Doc) : List Doc :=
  ds.flatMap fun d => if d.dcs.isEmpty then [d] else (d.dcs.filter (· = dc)).map fun _ => d

/-- `resolvePoliciesForIdentity`, given how a role id and a policy id resolve -/
def policiesForV (role : Bytes → Option Role) (doc : Bytes → Option Doc) (dc : Bytes) (t : Token) : List Doc :=
  if t.noLinks then []
  else
    let roles := t.roles.filterMap role
    let pids := dedupeSorted (t.policies ++ roles.flatMap (·.policies))
    filterByScope dc (pids.filterMap doc ++ synthDocs t roles)

/-- `resolvePoliciesForIdentity` in server mode: roles and policies come from the local state store -/
def policiesFor (s : Store) (dc : Bytes) (t : Token) : List Doc := policiesForV s.role s.doc dc t

inductive ResolveErr | root | notFound | compile
deriving DecidableEq, Repr

/-- "allow", "deny", "manage": the names `RootAuthorizer` knows -/
def rootNames : List Bytes :=
  [[97, 108, 108, 111, 119], [100, 101, 110, 121], [109, 97, 110, 97, 103, 101]]
#guard rootNames == ["allow", "deny", "manage"].map fun s => s.toUTF8.toList.map (·.toNat)
/-- "anonymous" -/
def anonymousToken : Bytes := [97, 110, 111, 110, 121, 109, 111, 117, 115]
#guard anonymousToken == "anonymous".toUTF8.toList.map (·.toNat)

/-- `ACLResolver.ResolveToken` (ACLs enabled, no locally managed tokens, server mode) -/
def resolveToken (s : Store) (dc : Bytes) (c : Caches) (secret : Bytes) :
    Caches × Except ResolveErr Authz :=
  if secret ∈ rootNames then (c, .error .root)
  else
    let secret := if secret = [] then anonymousToken else secret
    match s.token secret with
    | none => (c, .error .notFound)
    | some t =>
      let out := compile c (policiesFor s dc t)
      match out.authz with
      | none => (out.caches, .error .compile)
      | some z => (out.caches, .ok z)

end CV.Acl
