/-
CV.FsmKeyed — model of the "keyed table" command families of the consul FSM (property C01, round 5):

  message type (byte)                    Go code mirrored
  -------------------------------------  -----------------------------------------------------------
  ACLPolicySetRequestType 19             state/acl.go ACLPolicyBatchSet / aclPolicySetTxn
  ACLPolicyDeleteRequestType 20          ACLPolicyBatchDelete / aclPolicyDeleteTxn
  ACLRoleSetRequestType 23               ACLRoleBatchSet / aclRoleSetTxn / resolveRolePolicyLinks
  ACLRoleDeleteRequestType 24            ACLRoleBatchDelete / aclRoleDeleteTxn
  ACLBindingRuleSetRequestType 25        ACLBindingRuleBatchSet / aclBindingRuleSetTxn
  ACLBindingRuleDeleteRequestType 26     ACLBindingRuleBatchDelete (per-item errors IGNORED by the code)
  ACLAuthMethodSetRequestType 27         ACLAuthMethodBatchSet / aclAuthMethodSetTxn
  ACLAuthMethodDeleteRequestType 28      ACLAuthMethodBatchDelete / aclAuthMethodDeleteTxn
                                         (cascade: aclBindingRuleDeleteAllForAuthMethodTxn)
  FederationStateRequestType 30          fsm applyFederationStateOperation, state/federation_state.go
  ConnectCALeafRequestType 21            fsm applyConnectCALeafOperation, state CALeafSetIndex
                                         (opens a write txn, NEVER commits: nothing is written)

The model is the code AS IT IS: one memdb write transaction per command; a batch is applied in
REQUEST ORDER and the first error aborts the whole transaction (nothing is committed); an upsert
keeps `CreateIndex` of an existing row and stamps `ModifyIndex := idx`; the table's row of the
`index` table is raised to `idx` (`indexUpdateMaxTxn`; federation states: written verbatim).

Keys. memdb's id index of policies / roles / binding rules parses the UUID text (hex, so letter case
is irrelevant), the name indexes and the auth-method / datacenter id indexes lower-case: the model's
key of a row is `lc` of the identifier, while equality tests the Go code performs on the STRINGS
(`policy.ID != nameMatch.ID`, `ACLBuiltinPolicies[policy.ID]`) are exact here too.

Not in the model (stated, see bin/props/C01.json): the rest of a row is the opaque `body` (a canonical
rendering computed by the harness from the decoded request: description, rules, identities, config
…); `rulesBuiltin` (the request's Rules text equals the binary's text for that built-in policy) is
computed by the harness; templated policies are checked only as far as `tpCheck` goes (empty / unknown
template name, missing name variable of the service / node template); tokens are outside this model,
so the token half of the auth-method delete cascade (`aclTokenDeleteAllForAuthMethodTxn`) is not
represented; identifiers are ASCII (`String.toLower` vs Go's `strings.ToLower`) and well-formed UUIDs.
-/
import CV.Fsm

namespace CV.Keyed
open CV

/-- case folding of memdb's lower-casing / hex-parsing indexes (ASCII identifiers) -/
def lc (s : String) : String := s.toLower

inductive Err where
  | missingPolicyID | missingPolicyName | builtinRules | builtinDatacenters | policyNameExists | builtinDelete
  | missingRoleID | missingRoleName | roleNameExists | roleLinkByName | noSuchPolicy
  | emptySvcIdentity | emptyNodeName | emptyNodeDC | tpEmptyName | tpInvalidName | tpInvalid
  | missingRuleID | missingRuleMethod | methodNotFound
  | missingMethodName | missingMethodType
  | fedMissingDC | fedInvalidOp | leafInvalidOp
  deriving DecidableEq, Repr

/-! ### rows -/

structure Policy where
  id : String
  name : String
  body : String
  create : Nat
  modify : Nat
  deriving DecidableEq, Repr

structure Role where
  id : String
  name : String
  body : String
  links : List (String × String)      -- policy links (ID, Name) as stored
  create : Nat
  modify : Nat
  deriving DecidableEq, Repr

structure Rule where
  id : String
  method : String
  body : String
  create : Nat
  modify : Nat
  deriving DecidableEq, Repr

structure Method where
  name : String
  type : String
  body : String
  create : Nat
  modify : Nat
  deriving DecidableEq, Repr

structure Fed where
  dc : String
  body : String
  pmi : Nat                            -- PrimaryModifyIndex
  create : Nat
  modify : Nat
  deriving DecidableEq, Repr

/-- the tables these families write, plus their rows of the `index` table -/
structure State where
  policies : List Policy := []
  roles : List Role := []
  rules : List Rule := []
  methods : List Method := []
  feds : List Fed := []
  index : List (String × Nat) := []
  deriving DecidableEq, Repr

/-! ### requests -/

structure PolicyReq where
  id : String
  name : String
  body : String
  rulesBuiltin : Bool                  -- Rules == the binary's rules of the built-in policy with this ID
  hasDCs : Bool                        -- len(Datacenters) != 0
  deriving DecidableEq, Repr

structure RoleReq where
  id : String
  name : String
  body : String
  links : List (String × String)
  svc : List String                    -- ServiceIdentities[i].ServiceName
  nodes : List (String × String)       -- NodeIdentities[i].(NodeName, Datacenter)
  tps : List (String × String)         -- TemplatedPolicies[i].(TemplateName, TemplateVariables.Name)
  deriving DecidableEq, Repr

structure RuleReq where
  id : String
  method : String
  body : String
  deriving DecidableEq, Repr

structure MethodReq where
  name : String
  type : String
  body : String
  deriving DecidableEq, Repr

structure FedReq where
  dc : String
  body : String
  pmi : Nat
  deriving DecidableEq, Repr

inductive Cmd where
  | policySet (ps : List PolicyReq)
  | policyDelete (ids : List String)
  | roleSet (rs : List RoleReq) (allowMissing : Bool)
  | roleDelete (ids : List String)
  | ruleSet (rs : List RuleReq)
  | ruleDelete (ids : List String)
  | methodSet (ms : List MethodReq)
  | methodDelete (names : List String)
  | fedUpsert (f : FedReq)
  | fedDelete (dc : String)
  | fedBogus
  | leafIncrement
  | leafBogus
  deriving DecidableEq, Repr

/-- what `(*FSM).Apply` returns: `nil`, `true`, the raft index (CA leaf), or an error -/
inductive Res where
  | nil
  | true_
  | num (n : Nat)
  | err (e : Err)
  deriving DecidableEq, Repr

def Res.isErr : Res → Bool
  | .err _ => true
  | _ => false

/-! ### the `index` table -/

/-- `indexUpdateMaxTxn`: raise the table's row to `idx` (never lower it) -/
def bump (tbl : String) (idx : Nat) : List (String × Nat) → List (String × Nat)
  | [] => [(tbl, idx)]
  | (t, v) :: rest => if t = tbl then (t, max v idx) :: rest else (t, v) :: bump tbl idx rest

/-- `tx.Insert(tableIndex, &IndexEntry{tbl, idx})`: written verbatim -/
def setIdx (tbl : String) (idx : Nat) : List (String × Nat) → List (String × Nat)
  | [] => [(tbl, idx)]
  | (t, v) :: rest => if t = tbl then (t, idx) :: rest else (t, v) :: setIdx tbl idx rest

/-! ### generic keyed rows: replace the row with the same key, else append -/

def upsertBy {α : Type} (key : α → String) (x : α) : List α → List α
  | [] => [x]
  | y :: ys => if key y = key x then x :: ys else y :: upsertBy key x ys

def eraseBy {α : Type} (key : α → String) (k : String) (l : List α) : List α :=
  l.filter fun y => key y ≠ k

def Policy.key (p : Policy) : String := lc p.id
def Role.key (r : Role) : String := lc r.id
def Rule.key (r : Rule) : String := lc r.id
def Method.key (m : Method) : String := lc m.name
def Fed.key (f : Fed) : String := lc f.dc

def tPolicies := "acl-policies"
def tRoles := "acl-roles"
def tRules := "acl-binding-rules"
def tMethods := "acl-auth-methods"
def tFeds := "federation-states"

/-- `structs.ACLBuiltinPolicies`: global-management, builtin/global-read-only -/
def builtinIds : List String :=
  ["00000000-0000-0000-0000-000000000001", "00000000-0000-0000-0000-000000000002"]

/-! ### policies -/

/-- `aclPolicySetTxn` -/
def policySetOne (s : State) (idx : Nat) (p : PolicyReq) : Except Err State :=
  if p.id = "" then .error .missingPolicyID
  else if p.name = "" then .error .missingPolicyName
  else
    let existing := s.policies.find? fun r => r.key = lc p.id
    if existing.isSome && decide (p.id ∈ builtinIds) && !p.rulesBuiltin then .error .builtinRules
    else if existing.isSome && decide (p.id ∈ builtinIds) && p.hasDCs then .error .builtinDatacenters
    else
      let clash := match s.policies.find? fun r => lc r.name = lc p.name with
        | some m => decide (p.id ≠ m.id)
        | none => false
      if clash then .error .policyNameExists
      else
        let create := match existing with
          | some e => e.create
          | none => idx
        .ok { s with policies := upsertBy Policy.key ⟨p.id, p.name, p.body, create, idx⟩ s.policies,
                     index := bump tPolicies idx s.index }

/-- `aclPolicyDeleteTxn` (lookup by ID) -/
def policyDeleteOne (s : State) (idx : Nat) (id : String) : Except Err State :=
  match s.policies.find? fun r => r.key = lc id with
  | none => .ok s
  | some r =>
    if r.id ∈ builtinIds then .error .builtinDelete
    else .ok { s with policies := eraseBy Policy.key (lc id) s.policies, index := bump tPolicies idx s.index }

/-! ### roles -/

/-- `resolveRolePolicyLinks`: links in order; a resolvable link takes the policy's current name -/
def resolveLinks (pols : List Policy) (allowMissing : Bool) :
    List (String × String) → Except Err (List (String × String))
  | [] => .ok []
  | (id, name) :: rest =>
    if id = "" then .error .roleLinkByName
    else
      match pols.find? fun r => r.key = lc id with
      | some p => (resolveLinks pols allowMissing rest).map fun l => (id, p.name) :: l
      | none =>
        if allowMissing then (resolveLinks pols allowMissing rest).map fun l => (id, name) :: l
        else .error .noSuchPolicy

def nodesCheck : List (String × String) → Option Err
  | [] => none
  | (n, dc) :: rest =>
    if n = "" then some .emptyNodeName else if dc = "" then some .emptyNodeDC else nodesCheck rest

/-- template names of `aclTemplatedPoliciesList` -/
def templateNames : List String :=
  ["builtin/service", "builtin/node", "builtin/dns", "builtin/nomad-server", "builtin/nomad-client",
   "builtin/api-gateway"]

/-- templates whose schema requires the `name` variable -/
def templatesNeedingName : List String := ["builtin/service", "builtin/node", "builtin/api-gateway"]

def tpCheck : List (String × String) → Option Err
  | [] => none
  | (t, v) :: rest =>
    if t = "" then some .tpEmptyName
    else if t ∉ templateNames then some .tpInvalidName
    else if t ∈ templatesNeedingName ∧ v = "" then some .tpInvalid
    else tpCheck rest

/-- `aclRoleSetTxn` -/
def roleSetOne (s : State) (idx : Nat) (allowMissing : Bool) (r : RoleReq) : Except Err State :=
  if r.id = "" then .error .missingRoleID
  else if r.name = "" then .error .missingRoleName
  else
    let existing := s.roles.find? fun x => x.key = lc r.id
    let clash := match s.roles.find? fun x => lc x.name = lc r.name with
      | some m => decide (r.id ≠ m.id)
      | none => false
    if clash then .error .roleNameExists
    else
      match resolveLinks s.policies allowMissing r.links with
      | .error e => .error e
      | .ok links =>
        if "" ∈ r.svc then .error .emptySvcIdentity
        else
          match nodesCheck r.nodes with
          | some e => .error e
          | none =>
            match tpCheck r.tps with
            | some e => .error e
            | none =>
              let create := match existing with
                | some e => e.create
                | none => idx
              .ok { s with roles := upsertBy Role.key ⟨r.id, r.name, r.body, links, create, idx⟩ s.roles,
                           index := bump tRoles idx s.index }

/-- `aclRoleDeleteTxn` -/
def roleDeleteOne (s : State) (idx : Nat) (id : String) : Except Err State :=
  match s.roles.find? fun r => r.key = lc id with
  | none => .ok s
  | some _ => .ok { s with roles := eraseBy Role.key (lc id) s.roles, index := bump tRoles idx s.index }

/-! ### binding rules and auth methods -/

/-- `aclBindingRuleSetTxn` -/
def ruleSetOne (s : State) (idx : Nat) (r : RuleReq) : Except Err State :=
  if r.id = "" then .error .missingRuleID
  else if r.method = "" then .error .missingRuleMethod
  else
    let existing := s.rules.find? fun x => x.key = lc r.id
    match s.methods.find? fun m => m.key = lc r.method with
    | none => .error .methodNotFound
    | some _ =>
      let create := match existing with
        | some e => e.create
        | none => idx
      .ok { s with rules := upsertBy Rule.key ⟨r.id, r.method, r.body, create, idx⟩ s.rules,
                   index := bump tRules idx s.index }

/-- `aclBindingRuleDeleteTxn` (the batch caller drops its error; there is none for a well-formed id) -/
def ruleDeleteOne (s : State) (idx : Nat) (id : String) : State :=
  match s.rules.find? fun r => r.key = lc id with
  | none => s
  | some _ => { s with rules := eraseBy Rule.key (lc id) s.rules, index := bump tRules idx s.index }

/-- `aclAuthMethodSetTxn` -/
def methodSetOne (s : State) (idx : Nat) (m : MethodReq) : Except Err State :=
  if m.name = "" then .error .missingMethodName
  else if m.type = "" then .error .missingMethodType
  else
    let create := match s.methods.find? fun x => x.key = lc m.name with
      | some e => e.create
      | none => idx
    .ok { s with methods := upsertBy Method.key ⟨m.name, m.type, m.body, create, idx⟩ s.methods,
                 index := bump tMethods idx s.index }

/-- `aclAuthMethodDeleteTxn`: the binding rules of the method go first
    (`aclBindingRuleDeleteAllForAuthMethodTxn`: the rules index row is raised only if a rule went) -/
def methodDeleteOne (s : State) (idx : Nat) (name : String) : State :=
  match s.methods.find? fun m => m.key = lc name with
  | none => s
  | some m =>
    let keep := s.rules.filter fun r => lc r.method ≠ lc m.name
    let ix := if keep.length = s.rules.length then s.index else bump tRules idx s.index
    { s with rules := keep, methods := eraseBy Method.key (lc name) s.methods, index := bump tMethods idx ix }

/-! ### federation states, CA leaf -/

/-- `federationStateSetTxn` -/
def fedUpsert (s : State) (idx : Nat) (f : FedReq) : Except Err State :=
  if f.dc = "" then .error .fedMissingDC
  else
    let create := match s.feds.find? fun x => x.key = lc f.dc with
      | some e => e.create
      | none => idx
    let pmi := if f.pmi = 0 then idx else f.pmi
    .ok { s with feds := upsertBy Fed.key ⟨f.dc, f.body, pmi, create, idx⟩ s.feds, index := setIdx tFeds idx s.index }

/-- `federationStateDeleteTxn` -/
def fedDelete (s : State) (idx : Nat) (dc : String) : State :=
  match s.feds.find? fun x => x.key = lc dc with
  | none => s
  | some _ => { s with feds := eraseBy Fed.key (lc dc) s.feds, index := setIdx tFeds idx s.index }

/-! ### one command = one write transaction -/

/-- a batch in request order; the first error aborts -/
def batchE {α : Type} (f : State → α → Except Err State) : State → List α → Except Err State
  | s, [] => .ok s
  | s, x :: xs =>
    match f s x with
    | .error e => .error e
    | .ok s' => batchE f s' xs

def batch {α : Type} (f : State → α → State) : State → List α → State
  | s, [] => s
  | s, x :: xs => batch f (f s x) xs

/-- commit or abort: an error answer leaves the state as it was -/
def commit (s : State) : Except Err State → State × Res
  | .ok s' => (s', .nil)
  | .error e => (s, .err e)

def apply (s : State) (idx : Nat) : Cmd → State × Res
  | .policySet ps => commit s (batchE (fun st p => policySetOne st idx p) s ps)
  | .policyDelete ids => commit s (batchE (fun st i => policyDeleteOne st idx i) s ids)
  | .roleSet rs am => commit s (batchE (fun st r => roleSetOne st idx am r) s rs)
  | .roleDelete ids => commit s (batchE (fun st i => roleDeleteOne st idx i) s ids)
  | .ruleSet rs => commit s (batchE (fun st r => ruleSetOne st idx r) s rs)
  | .ruleDelete ids => (batch (fun st i => ruleDeleteOne st idx i) s ids, .nil)
  | .methodSet ms => commit s (batchE (fun st m => methodSetOne st idx m) s ms)
  | .methodDelete names => (batch (fun st n => methodDeleteOne st idx n) s names, .nil)
  | .fedUpsert f =>
    match fedUpsert s idx f with
    | .ok s' => (s', .true_)
    | .error e => (s, .err e)
  | .fedDelete dc => (fedDelete s idx dc, .nil)
  | .fedBogus => (s, .err .fedInvalidOp)
  | .leafIncrement => (s, .num idx)          -- CALeafSetIndex: Abort without Commit
  | .leafBogus => (s, .err .leafInvalidOp)

def replay (s : State) : List (Nat × Cmd) → State
  | [] => s
  | (idx, c) :: rest => replay (apply s idx c).1 rest

/-- which message type carries which commands -/
def isPolicySet : Cmd → Bool | .policySet .. => true | _ => false
def isPolicyDelete : Cmd → Bool | .policyDelete .. => true | _ => false
def isRoleSet : Cmd → Bool | .roleSet .. => true | _ => false
def isRoleDelete : Cmd → Bool | .roleDelete .. => true | _ => false
def isRuleSet : Cmd → Bool | .ruleSet .. => true | _ => false
def isRuleDelete : Cmd → Bool | .ruleDelete .. => true | _ => false
def isMethodSet : Cmd → Bool | .methodSet .. => true | _ => false
def isMethodDelete : Cmd → Bool | .methodDelete .. => true | _ => false
def isFed : Cmd → Bool | .fedUpsert .. | .fedDelete .. | .fedBogus => true | _ => false
def isLeaf : Cmd → Bool | .leafIncrement | .leafBogus => true | _ => false

end CV.Keyed
