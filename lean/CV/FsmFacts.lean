/-
The consul instance of the dispatch table of `CV.Fsm`, built from the *regenerated* facts
(`CV/Generated/FactsFsm.lean`, rewritten by go/factgen from /repo on every check run):
`registeredCommands` (the `registerCommand(structs.X, (*FSM).applyY)` calls of
`fsm/commands_ce.go`) joined with `messageTypes` (the constant block of `structs/structs.go`).
The handlers are opaque here: they leave the (unit) state alone and return their own name, and
whether the real handler panicked on the payload is an oracle bit carried in the payload — the
decode layer is not modelled (see `CV/Fsm.lean`). The line-protocol engine (`CV/Engine/C01.lean`)
runs `CV.Fsm.dispatch` / `CV.Fsm.run` over exactly this table.
-/
import CV.Fsm
import CV.Generated.FactsFsm

namespace CV.Fsm.Consul
open CV CV.Fsm

/-- message-type byte of a constant name, from the regenerated constant block -/
def typeByte (name : String) : Option Nat := Facts.Fsm.messageTypes.lookup name

/-- (byte, message type name, handler name) for every registered command whose constant resolves;
    `CV.Props.C01.slot_table_total` proves none is dropped. -/
def slotTable : List (Nat × String × String) :=
  Facts.Fsm.registeredCommands.filterMap fun (ty, h) =>
    match typeByte ty with
    | some b => some (b, ty, h)
    | none => none

/-- Opaque handler: panics iff the oracle payload is `[1]`, otherwise returns its own name. -/
def opaqueHandler (name : String) : Handler Unit Unit String :=
  fun _ s _ p => if p = [1] then none else some (s, name)

/-- The dispatch table of the consul FSM with opaque handlers. -/
def table : Table Unit Unit String := slotTable.map fun (b, _, h) => (b, opaqueHandler h)

/-- Command families used by the harness generators; every registered message type must be in
    one of them (`CV.Props.C01.dispatch_covered`) and every run must exercise all of them
    (`cov` line of the engine). -/
def families : List (String × String) := [
  ("RegisterRequestType", "catalog"), ("DeregisterRequestType", "catalog"),
  ("KVSRequestType", "kv"), ("SessionRequestType", "session"),
  ("DeprecatedACLRequestType", "legacy-acl"), ("TombstoneRequestType", "tombstone"),
  ("CoordinateBatchUpdateType", "coordinate"), ("PreparedQueryRequestType", "prepared-query"),
  ("TxnRequestType", "txn"), ("AutopilotRequestType", "autopilot"),
  ("FeatureGateRequestType", "feature-gate"), ("IntentionRequestType", "intention"),
  ("ConnectCARequestType", "ca"), ("ConnectCALeafRequestType", "ca"),
  ("ACLTokenSetRequestType", "acl"), ("ACLTokenDeleteRequestType", "acl"),
  ("ACLBootstrapRequestType", "acl"), ("ACLPolicySetRequestType", "acl"),
  ("ACLPolicyDeleteRequestType", "acl"), ("ACLRoleSetRequestType", "acl"),
  ("ACLRoleDeleteRequestType", "acl"), ("ACLBindingRuleSetRequestType", "acl"),
  ("ACLBindingRuleDeleteRequestType", "acl"), ("ACLAuthMethodSetRequestType", "acl"),
  ("ACLAuthMethodDeleteRequestType", "acl"), ("ConfigEntryRequestType", "config-entry"),
  ("FederationStateRequestType", "federation-state"), ("SystemMetadataRequestType", "system-metadata"),
  ("PeeringWriteType", "peering"), ("PeeringDeleteType", "peering"),
  ("PeeringTerminateByIDType", "peering"), ("PeeringTrustBundleWriteType", "peering"),
  ("PeeringTrustBundleDeleteType", "peering"), ("PeeringSecretsWriteType", "peering"),
  ("ResourceOperationType", "resource"), ("UpdateVirtualIPRequestType", "manual-vip")]

/-- registered message types (by constant name) that are absent from `seen` -/
def missingTypes (seen : List String) : List String :=
  (slotTable.map (·.2.1)).filter fun t => !seen.contains t

end CV.Fsm.Consul
