/-
CV.Repl — model of one replication round (property C19).

Mirrors
  * agent/consul/acl_replication.go      `diffACLType`
  * agent/consul/config_replication.go   `diffConfigEntries`
as ONE generic merge walk over two key-sorted lists, parametrised by
  * `lt`    the comparator the Go code uses on the sort key
             (ACL: Go string `<` on the ID; config entries: `configentry.Less`)
  * `skip`  keys that the walk ignores (ACL: the empty ID; config entries: none)
  * `same`  the "hashes agree" test (ACL: `bytes.Equal`; config: `configentry.SameHash`,
             which is false when either hash is zero)
Core-only Lean; no Mathlib.
-/
import CV.Proto
namespace CV.Repl

structure Item (κ : Type) (η : Type) where
  id   : κ
  mod  : Nat        -- remote ModifyIndex (ignored for local items)
  hash : η
  val  : Nat        -- abstract content; what "equal to the primary" is about
deriving Repr, DecidableEq

structure Cfg (κ η : Type) where
  lt   : κ → κ → Bool
  skip : κ → Bool
  same : η → η → Bool

variable {κ η : Type} [DecidableEq κ]

/-- The merge walk. Returns (deletions, upserts) as key lists, in emission order. -/
def diff (c : Cfg κ η) (last : Nat) : List (Item κ η) → List (Item κ η) → List κ × List κ
  | [], [] => ([], [])
  | l :: ls, [] =>
      let (d, u) := diff c last ls []
      if c.skip l.id then (d, u) else (l.id :: d, u)
  | [], r :: rs =>
      let (d, u) := diff c last [] rs
      if c.skip r.id then (d, u) else (d, r.id :: u)
  | l :: ls, r :: rs =>
      if c.skip l.id then diff c last ls (r :: rs)
      else if c.skip r.id then diff c last (l :: ls) rs
      else if l.id = r.id then
        let (d, u) := diff c last ls rs
        if last < r.mod ∧ c.same r.hash l.hash = false then (d, r.id :: u) else (d, u)
      else if c.lt l.id r.id then
        let (d, u) := diff c last ls (r :: rs)
        (l.id :: d, u)
      else
        let (d, u) := diff c last (l :: ls) rs
        (d, r.id :: u)
termination_by l r => l.length + r.length

/-- stable insertion sort by the comparator (what `sort.SliceStable(Less)` computes;
    for duplicate-free keys every correct sort computes the same list) -/
def insertBy (lt : κ → κ → Bool) (x : Item κ η) : List (Item κ η) → List (Item κ η)
  | [] => [x]
  | y :: ys => if lt x.id y.id then x :: y :: ys else y :: insertBy lt x ys

def sortBy (lt : κ → κ → Bool) : List (Item κ η) → List (Item κ η)
  | [] => []
  | x :: xs => insertBy lt x (sortBy lt xs)

/-- Applying a round: delete, then upsert from the remote list. -/
def applyDiff (l : List (Item κ η)) (dels ups : List κ) (r : List (Item κ η)) : List (Item κ η) :=
  (l.filter fun x => !(dels.contains x.id) && !(ups.contains x.id)) ++ r.filter fun x => ups.contains x.id

def valOf (xs : List (Item κ η)) (k : κ) : Option Nat := (xs.find? fun x => x.id = k).map (·.val)

/-- one full round as the Go code performs it -/
def round (c : Cfg κ η) (last : Nat) (l r : List (Item κ η)) : List (Item κ η) :=
  let (d, u) := diff c last (sortBy c.lt l) (sortBy c.lt r)
  applyDiff l d u r

/-! ### the two instances -/

def bytesLt (a b : Bytes) : Bool := decide (a < b)

/-- `diffACLType`: keys are IDs (Go strings, bytewise `<`), empty ID skipped, `bytes.Equal` on hashes -/
def aclCfg : Cfg Bytes Bytes := { lt := bytesLt, skip := fun k => k = [], same := fun a b => a = b }

abbrev CKey := Bytes × Bytes      -- (kind, name); enterprise meta is the default one in CE

def ckeyLt (a b : CKey) : Bool :=
  if a.1 < b.1 then true else if b.1 < a.1 then false else decide (a.2 < b.2)

/-- `diffConfigEntries`: `configentry.Less`, nothing skipped, `SameHash` (zero never matches) -/
def cfgCfg : Cfg CKey Nat := { lt := ckeyLt, skip := fun _ => false, same := fun a b => a != 0 && b != 0 && a == b }

end CV.Repl
