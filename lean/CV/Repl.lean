/-
CV.Repl — model of one replication round (property C19).

Mirrors
  * agent/consul/acl_replication.go      `diffACLType`, `replicateACLType`,
                                         `deleteLocalACLType`, `updateLocalACLType`
  * agent/consul/config_replication.go   `diffConfigEntries`, `replicateConfig`,
                                         `reconcileLocalConfig`
  * agent/consul/leader.go `runACLReplicator` / replication.go `Replicator.Run`
    (what the caller does with the returned index)

The merge walk is ONE generic function over two key-sorted lists, parametrised by
  * `lt`    the comparator the Go code uses on the sort key
             (ACL: Go string `<` on the ID; config entries: `configentry.Less`)
  * `skip`  keys that the walk ignores (ACL: the empty ID; config entries: none)
  * `same`  the "hashes agree" test (ACL: `bytes.Equal`; config: `configentry.SameHash`,
             which is false when either hash is zero)

The round around the walk (`Rnd`) adds what the real round does with the walk's result:
  * `fold`     the key normalisation of the secondary's state store. The walk compares keys
               exactly (case-sensitively) but memdb keys config entries by lower-cased kind/name
               (`indexFromConfigEntry`) and ACL objects by the parsed UUID (hex is
               case-insensitive): a delete or upsert hits the row whose FOLDED key matches.
  * `noRepl`   keys the apply step silently skips (`reconcileLocalConfig`: exported-services)
  * `delBatch`, `upsLimit`, item `size`  batching (`aclBatchDeleteSize`, `aclBatchUpsertSize`;
               config entries: one Raft apply per entry)
  * the order of the writes: ALL deletions first, THEN the upserts
  * `remoteIndex < lastRemoteIndex ⇒ lastRemoteIndex := 0` and the returned index.
Core-only Lean; no Mathlib.
-/
import CV.Proto
namespace CV.Repl

structure Item (κ : Type) (η : Type) where
  id   : κ
  mod  : Nat        -- remote ModifyIndex (ignored for local items)
  hash : η
  val  : Nat        -- abstract content; what "equal to the primary" is about
  size : Nat        -- `EstimateSize()` (only drives upsert batching)
deriving Repr, DecidableEq

structure Cfg (κ η : Type) where
  lt   : κ → κ → Bool
  skip : κ → Bool
  same : η → η → Bool

variable {κ η : Type} [DecidableEq κ]

/-- The merge walk. Returns (deletions, upserts) as key lists, in emission order. -/
def diff (c : Cfg κ η) (last : Nat) : List (Item κ η) → List (Item κ η) → List κ × List κ
  | [], [] => ([], [])
  | l :: ls, [] =>
      let (d, u) := diff c last ls []
      if c.skip l.id then (d, u) else (l.id :: d, u)
  | [], r :: rs =>
      let (d, u) := diff c last [] rs
      if c.skip r.id then (d, u) else (d, r.id :: u)
  | l :: ls, r :: rs =>
      if c.skip l.id then diff c last ls (r :: rs)
      else if c.skip r.id then diff c last (l :: ls) rs
      else if l.id = r.id then
        let (d, u) := diff c last ls rs
        if last < r.mod ∧ c.same r.hash l.hash = false then (d, r.id :: u) else (d, u)
      else if c.lt l.id r.id then
        let (d, u) := diff c last ls (r :: rs)
        (l.id :: d, u)
      else
        let (d, u) := diff c last (l :: ls) rs
        (d, r.id :: u)
termination_by l r => l.length + r.length

/-- stable insertion sort by the comparator (what `sort.SliceStable(Less)` computes;
    for duplicate-free keys every correct sort computes the same list) -/
def insertBy (lt : κ → κ → Bool) (x : Item κ η) : List (Item κ η) → List (Item κ η)
  | [] => [x]
  | y :: ys => if lt x.id y.id then x :: y :: ys else y :: insertBy lt x ys

def sortBy (lt : κ → κ → Bool) : List (Item κ η) → List (Item κ η)
  | [] => []
  | x :: xs => insertBy lt x (sortBy lt xs)

def valOf (xs : List (Item κ η)) (k : κ) : Option Nat := (xs.find? fun x => x.id = k).map (·.val)

/-! ### the round around the walk -/

structure Rnd (κ η : Type) where
  cfg      : Cfg κ η
  fold     : κ → κ
  noRepl   : κ → Bool
  delBatch : Nat
  upsLimit : Nat

/-- the secondary's store deletes the row whose folded key matches -/
def sdel (fold : κ → κ) (s : List (Item κ η)) (k : κ) : List (Item κ η) :=
  s.filter fun x => fold x.id != fold k

/-- … and an upsert replaces the row whose folded key matches -/
def sups (fold : κ → κ) (s : List (Item κ η)) (x : Item κ η) : List (Item κ η) :=
  (s.filter fun y => fold y.id != fold x.id) ++ [x]

/-- Batching loop shared by `deleteLocalACLType` (size 1 per item, limit 4096) and
    `updateLocalACLType` (estimated sizes, limit 256 KiB): items join the current batch while the
    accumulated size is below the limit; `cur` is the open batch (reversed), `acc` its size.
    (For limit 0 the Go loops do not terminate; both limits are non-zero constants.) -/
def batchesGo {α : Type} (lim : Nat) (size : α → Nat) : List α → Nat → List α → List (List α)
  | cur, _, [] => if cur.isEmpty then [] else [cur.reverse]
  | cur, acc, x :: xs =>
      if acc < lim then batchesGo lim size (x :: cur) (acc + size x) xs
      else cur.reverse :: batchesGo lim size [x] (size x) xs

def batches {α : Type} (lim : Nat) (size : α → Nat) (xs : List α) : List (List α) :=
  batchesGo lim size [] 0 xs

/-- one Raft apply of the round -/
inductive Op (κ η : Type) where
  | del (ks : List κ)
  | ups (xs : List (Item κ η))
deriving Repr

def execOp (fold : κ → κ) (s : List (Item κ η)) : Op κ η → List (Item κ η)
  | .del ks => ks.foldl (sdel fold) s
  | .ups xs => xs.foldl (sups fold) s

/-- "If the remote index ever goes backwards … do a full sync" -/
def effLast (last ridx : Nat) : Nat := if ridx < last then 0 else last

/-- the deletions the round really applies -/
def roundDels (R : Rnd κ η) (last ridx : Nat) (l r : List (Item κ η)) : List κ :=
  (diff R.cfg (effLast last ridx) (sortBy R.cfg.lt l) (sortBy R.cfg.lt r)).1.filter fun k => !R.noRepl k

/-- the objects the round really upserts (`FetchUpdated` / `updates`), in remote sort order -/
def roundUps (R : Rnd κ η) (last ridx : Nat) (l r : List (Item κ η)) : List (Item κ η) :=
  let u := (diff R.cfg (effLast last ridx) (sortBy R.cfg.lt l) (sortBy R.cfg.lt r)).2
  (sortBy R.cfg.lt r).filter fun x => u.contains x.id && !R.noRepl x.id

/-- The Raft applies of one round, in the order the Go code issues them:
    every deletion batch, then every upsert batch. -/
def roundOps (R : Rnd κ η) (last ridx : Nat) (l r : List (Item κ η)) : List (Op κ η) :=
  (batches R.delBatch (fun _ => 1) (roundDels R last ridx l r)).map Op.del ++
  (batches R.upsLimit Item.size (roundUps R last ridx l r)).map Op.ups

/-- the secondary's replicated set after the round -/
def roundFinal (R : Rnd κ η) (last ridx : Nat) (l r : List (Item κ η)) : List (Item κ η) :=
  (roundOps R last ridx l r).foldl (execOp R.fold) l

/-- "Return the index we got back from the remote side" -/
def roundRet (_last ridx : Nat) : Nat := ridx

/-- The same writes in the OPPOSITE order (upserts before deletions) — not what the code does;
    kept to state why the order matters (`swapped_order_counterexample`). -/
def roundFinalSwapped (R : Rnd κ η) (last ridx : Nat) (l r : List (Item κ η)) : List (Item κ η) :=
  ((batches R.upsLimit Item.size (roundUps R last ridx l r)).map Op.ups ++
   (batches R.delBatch (fun _ => 1) (roundDels R last ridx l r)).map Op.del).foldl (execOp R.fold) l

/-- what `runACLReplicator` / `Replicator.Run` feed into the next round -/
def nextLast (failed : Bool) (ret : Nat) : Nat := if failed then 0 else ret

/-! ### the two instances -/

def bytesLt (a b : Bytes) : Bool := decide (a < b)

/-- ASCII lower-casing (`strings.ToLower` on ASCII; hex digits of a UUID) -/
def lowerB (b : Nat) : Nat := if 65 ≤ b ∧ b ≤ 90 then b + 32 else b
def lowerBytes (bs : Bytes) : Bytes := bs.map lowerB

/-- `diffACLType`: keys are IDs (Go strings, bytewise `<`), empty ID skipped, `bytes.Equal` on hashes -/
def aclCfg : Cfg Bytes Bytes := { lt := bytesLt, skip := fun k => k = [], same := fun a b => a = b }

/-- `replicateACLType`: UUID-indexed tables, batches of 4096 deletions / 256 KiB of upserts -/
def aclRnd : Rnd Bytes Bytes :=
  { cfg := aclCfg, fold := lowerBytes, noRepl := fun _ => false, delBatch := 4096, upsLimit := 262144 }

abbrev CKey := Bytes × Bytes      -- (kind, name); enterprise meta is the default one in CE

def ckeyLt (a b : CKey) : Bool :=
  if a.1 < b.1 then true else if b.1 < a.1 then false else decide (a.2 < b.2)

/-- `diffConfigEntries`: `configentry.Less`, nothing skipped, `SameHash` (zero never matches) -/
def cfgCfg : Cfg CKey Nat := { lt := ckeyLt, skip := fun _ => false, same := fun a b => a != 0 && b != 0 && a == b }

/-- "exported-services" -/
def exportedServices : Bytes := [101, 120, 112, 111, 114, 116, 101, 100, 45, 115, 101, 114, 118, 105, 99, 101, 115]

/-- `replicateConfig`: rows keyed by lower-cased kind and name, exported-services never applied,
    one Raft apply per entry (model: every item has size 1, limit 1) -/
def cfgRnd : Rnd CKey Nat :=
  { cfg := cfgCfg, fold := fun k => (lowerBytes k.1, lowerBytes k.2),
    noRepl := fun k => k.1 = exportedServices, delBatch := 1, upsLimit := 1 }

/-! ### stale batch reads (`FetchUpdated` answered by a primary server that lags behind the one
    that answered the list request) and `ensureRemoteConsistent`

    `ov` overrides what the batch read returns for some ids: an older stored version of the
    object, or nothing. `cre` is the remote CreateIndex. The guard as coded for policies:
    a returned object whose hash differs from the listed one and whose ModifyIndex is lower, or a
    missing object that the list shows as just created (ModifyIndex = CreateIndex), fails the round
    BEFORE any write. `aclTokenReplicator.ensureRemoteConsistent` is the same test on accessor IDs
    (`guard = true` for policies and tokens alike); roles never batch-read (they re-use the list).
    The `guard` parameter only exists to state what goes wrong without it. -/

def fetched (ov : List (κ × Option (Item κ η))) (x : Item κ η) : Option (Item κ η) :=
  match ov.find? (fun o => o.1 = x.id) with
  | none => some x
  | some o => o.2

def guardBad (c : Cfg κ η) (ov : List (κ × Option (Item κ η))) (cre : κ → Nat) (x : Item κ η) : Bool :=
  match fetched ov x with
  | some f => !(c.same f.hash x.hash) && decide (f.mod < x.mod)
  | none => x.mod == cre x.id

def staleDetected (R : Rnd κ η) (guard : Bool) (ov : List (κ × Option (Item κ η))) (cre : κ → Nat)
    (last ridx : Nat) (l r : List (Item κ η)) : Bool :=
  guard && (roundUps R last ridx l r).any (guardBad R.cfg ov cre)

/-- what the round upserts when the batch read is (partly) stale -/
def roundUpsStale (R : Rnd κ η) (ov : List (κ × Option (Item κ η))) (last ridx : Nat)
    (l r : List (Item κ η)) : List (Item κ η) :=
  (roundUps R last ridx l r).filterMap (fetched ov)

def roundOpsStale (R : Rnd κ η) (guard : Bool) (ov : List (κ × Option (Item κ η))) (cre : κ → Nat)
    (last ridx : Nat) (l r : List (Item κ η)) : List (Op κ η) :=
  if staleDetected R guard ov cre last ridx l r then []
  else (batches R.delBatch (fun _ => 1) (roundDels R last ridx l r)).map Op.del ++
       (batches R.upsLimit Item.size (roundUpsStale R ov last ridx l r)).map Op.ups

def roundFinalStale (R : Rnd κ η) (guard : Bool) (ov : List (κ × Option (Item κ η))) (cre : κ → Nat)
    (last ridx : Nat) (l r : List (Item κ η)) : List (Item κ η) :=
  (roundOpsStale R guard ov cre last ridx l r).foldl (execOp R.fold) l

/-- `none` = the round returned an error (the replicator retries with last = 0) -/
def roundRetStale (R : Rnd κ η) (guard : Bool) (ov : List (κ × Option (Item κ η))) (cre : κ → Nat)
    (last ridx : Nat) (l r : List (Item κ η)) : Option Nat :=
  if staleDetected R guard ov cre last ridx l r then none else some ridx

/-! ### the second unique index of ACL policies and roles: the name

    `aclPolicySetTxn` / `aclRoleSetTxn` reject an upsert whose (lower-cased) name is held by a row
    with a different ID — checked against the table as it stands at that point of the batch
    transaction; one rejection aborts the whole `ACLPolicyBatchSetRequest`. The round model above
    assumes every apply succeeds; this is the part of the store that can make one fail. -/

structure NRow where
  id   : Bytes
  name : Bytes
deriving Repr, DecidableEq

def nUpsert (s : List NRow) (x : NRow) : Option (List NRow) :=
  if s.any (fun y => lowerBytes y.name == lowerBytes x.name && y.id != x.id) then none
  else some ((s.filter fun y => lowerBytes y.id != lowerBytes x.id) ++ [x])

/-- one upsert batch = one transaction: all or nothing, elements in the order given -/
def nBatch : List NRow → List NRow → Option (List NRow)
  | s, [] => some s
  | s, x :: xs =>
    match nUpsert s x with
    | none => none
    | some s' => nBatch s' xs

/-! ### federation states (`federation_state_replication.go`, driven by `IndexReplicator.Replicate`)

    The third instance of the merge walk: key = the datacenter name (Go string `<`), nothing is
    skipped, and there is NO content hash — an object on both sides is upserted iff its remote
    ModifyIndex is above the last index (`same` is constantly false). One Raft apply per object
    (`PerformDeletions` / `PerformUpdates`); the table is keyed by the lower-cased datacenter
    (`StringFieldIndex{Lowercase: true}`). The upserted copy carries the primary's ModifyIndex
    (`PrimaryModifyIndex`): an `Item` is copied whole, so `mod` of a row written by a round is the
    remote ModifyIndex. -/

def fedCfg : Cfg Bytes Unit := { lt := bytesLt, skip := fun _ => false, same := fun _ _ => false }

def fedRnd : Rnd Bytes Unit :=
  { cfg := fedCfg, fold := lowerBytes, noRepl := fun _ => false, delBatch := 1, upsLimit := 1 }

/-! ### faults inside a round: rejected applies and a cancelled context

    `rej s o`   the secondary's store, holding `s`, rejects apply `o` (the FSM returns an error; the
                Raft entry is committed all the same and the store is unchanged)
    `cancelAt`  which poll of `ctx.Done()` finds the context cancelled: poll 0 is the one right
                after the fetch, the following ones sit BETWEEN two applies of the same phase
                (`if i < len-1` / `if batchEnd < lenPending`): there is none after the last apply
                of a phase, hence none between the deletion and the upsert phase.
    `perItem`   `reconcileLocalConfig`, `PerformDeletions/Updates`: one apply per object, walking the
                UNFILTERED diff list; an exempt kind (exported-services) is skipped with `continue`,
                before the poll, and the "is this the last one" test counts it.
    `failFast`  ACL and federation-state rounds return at the first failed apply; config entries
                collect the errors (`multierror`), go on with the remaining deletions AND with the
                upsert phase, and fail at the end. -/

structure RndX (κ η : Type) extends Rnd κ η where
  perItem  : Bool
  failFast : Bool

structure Fault (κ η : Type) where
  rej      : List (Item κ η) → Op κ η → Bool
  cancelAt : Option Nat

def noFault : Fault κ η := { rej := fun _ _ => false, cancelAt := none }

structure St (κ η : Type) where
  store  : List (Item κ η)
  tried  : List (Op κ η)      -- Raft applies issued, in order (a rejected apply is a log entry too)
  nchk   : Nat                -- polls of the context made so far
  failed : Bool
  exited : Bool

def stepOp (fold : κ → κ) (F : Fault κ η) (st : St κ η) (o : Op κ η) : St κ η :=
  if F.rej st.store o then { st with tried := st.tried ++ [o], failed := true }
  else { st with store := execOp fold st.store o, tried := st.tried ++ [o] }

def poll (F : Fault κ η) (st : St κ η) : St κ η :=
  { st with nchk := st.nchk + 1, exited := st.exited || F.cancelAt == some (st.nchk + 1) }

/-- one apply loop (`none` = an entry the loop `continue`s over) -/
def runPhase (fold : κ → κ) (F : Fault κ η) (ff : Bool) : List (Option (Op κ η)) → St κ η → St κ η
  | [], st => st
  | none :: rest, st => runPhase fold F ff rest st
  | some o :: rest, st =>
    if ((stepOp fold F st o).failed && ff) || rest.isEmpty then stepOp fold F st o
    else if (poll F (stepOp fold F st o)).exited then poll F (stepOp fold F st o)
    else runPhase fold F ff rest (poll F (stepOp fold F st o))

def phaseDels (X : RndX κ η) (last ridx : Nat) (l r : List (Item κ η)) : List (Option (Op κ η)) :=
  if X.perItem then
    (diff X.cfg (effLast last ridx) (sortBy X.cfg.lt l) (sortBy X.cfg.lt r)).1.map
      fun k => if X.noRepl k then none else some (Op.del [k])
  else (batches X.delBatch (fun _ => 1) (roundDels X.toRnd last ridx l r)).map fun b => some (Op.del b)

def phaseUps (X : RndX κ η) (last ridx : Nat) (l r : List (Item κ η)) : List (Option (Op κ η)) :=
  if X.perItem then
    let u := (diff X.cfg (effLast last ridx) (sortBy X.cfg.lt l) (sortBy X.cfg.lt r)).2
    ((sortBy X.cfg.lt r).filter fun x => u.contains x.id).map
      fun x => if X.noRepl x.id then none else some (Op.ups [x])
  else (batches X.upsLimit Item.size (roundUps X.toRnd last ridx l r)).map fun b => some (Op.ups b)

/-- one round under faults -/
def roundRun (X : RndX κ η) (F : Fault κ η) (last ridx : Nat) (l r : List (Item κ η)) : St κ η :=
  if F.cancelAt = some 0 then { store := l, tried := [], nchk := 0, failed := false, exited := true }
  else
    let st1 := runPhase X.fold F X.failFast (phaseDels X last ridx l r)
      { store := l, tried := [], nchk := 0, failed := false, exited := false }
    if st1.exited || (st1.failed && X.failFast) then st1
    else runPhase X.fold F X.failFast (phaseUps X last ridx l r) st1

/-- what the round returns -/
inductive Ret where
  | exit            -- (0, true, nil): the replicator routine returns
  | error           -- (0, false, err): the replicator retries from index 0
  | idx (n : Nat)
deriving Repr, DecidableEq

def runRet (ridx : Nat) (st : St κ η) : Ret :=
  if st.exited then .exit else if st.failed then .error else .idx ridx

def aclX : RndX Bytes Bytes := { aclRnd with perItem := false, failFast := true }
def cfgX : RndX CKey Nat := { cfgRnd with perItem := true, failFast := false }
def fedX : RndX Bytes Unit := { fedRnd with perItem := true, failFast := true }

/-! ### the one store constraint of config entries that is modelled: the protocol of a split service

    `validateProposedConfigEntryInServiceGraph` compiles the discovery chain of every service the
    write touches. Fragment modelled (the kinds the harness generates for it): a service-splitter
    for service `n` needs `n` to speak an HTTP-like protocol, which here can only come from
    service-defaults `n` (content 1 = Protocol "http", anything else = the default "tcp").
      * upsert of a splitter is rejected unless service-defaults `n` with http is in the store
      * upsert of service-defaults `n` without http is rejected while a splitter `n` is in the store
      * deletion of service-defaults `n` is rejected while a splitter `n` is in the store
    (rows are looked up by the lower-cased name, as the store does). -/

def kindSD : Bytes := [115,101,114,118,105,99,101,45,100,101,102,97,117,108,116,115]        -- "service-defaults"
def kindSplit : Bytes := [115,101,114,118,105,99,101,45,115,112,108,105,116,116,101,114]    -- "service-splitter"

def hasHttp (s : List (Item CKey Nat)) (n : Bytes) : Bool :=
  s.any fun y => y.id.1 == kindSD && lowerBytes y.id.2 == lowerBytes n && y.val == 1

def hasSplit (s : List (Item CKey Nat)) (n : Bytes) : Bool :=
  s.any fun y => y.id.1 == kindSplit && lowerBytes y.id.2 == lowerBytes n

def cfgRej (s : List (Item CKey Nat)) : Op CKey Nat → Bool
  | .del [k] => k.1 == kindSD && hasSplit s k.2 && s.any (fun y => y.id.1 == kindSD && lowerBytes y.id.2 == lowerBytes k.2)
  | .ups [x] => (x.id.1 == kindSplit && !hasHttp s x.id.2) || (x.id.1 == kindSD && x.val != 1 && hasSplit s x.id.2)
  | _ => false

end CV.Repl
