/-
CV.StreamSubject — the routing layer of the event publisher for service subjects (property C11).

Mirrors, as the code is (CE build):
  * agent/consul/state/catalog_events_ce.go `EventSubjectService.String`: the topic-buffer key of a
    ServiceHealth / ServiceHealthConnect event and of a subscription: the FINAL key (`overrideKey`
    if set — sidecar proxies: `Proxy.DestinationServiceName`, terminating gateways: the linked
    service of gateway-services —, else `Key`) is lower-cased, then prefixed by the peer name
  * agent/consul/state/catalog_events.go `EventPayloadCheckServiceNode.Subject` (publisher side:
    `Key = Value.Service.Service` + the payload's `overrideKey`)
  * agent/consul/state/events.go `PBToStreamSubscribeRequest` (subscriber side: `Key` = the
    requested name, never an override)
  * agent/consul/state/catalog_schema.go `indexServiceNameFromServiceNode`,
    `indexConnectNameFromServiceNode`, schema.go `indexFromString` / `indexNameFromIndexEntry`:
    the memdb keys behind the direct query are the lower-cased names
  * agent/consul/state/config_entry_events.go `EventSubjectConfigEntry.String` (lower-cased since
    /repo ee62d21; before, a subscriber of "Web" missed every update of the entry written "web")
    and config_entry_schema.go `indexFromConfigEntry` (lower-cased)
`strings.ToLower` is modelled on ASCII (`Char.toLower`); the harness generates ASCII names.
Core-only Lean; no Mathlib.
-/
import CV.Proto
namespace CV.Stream

/-- `strings.ToLower` (ASCII) -/
def lower (s : String) : String := String.ofList (s.toList.map Char.toLower)

/-- `EventSubjectService` (the fields that exist in the CE build) -/
structure SvcSubj where
  key      : String
  override : String
  peer     : String
deriving DecidableEq, Repr

/-- the name that decides the routing: `overrideKey` if set, else `Key` -/
def SvcSubj.effective (s : SvcSubj) : String := if s.override = "" then s.key else s.override

/-- `EventSubjectService.String` -/
def SvcSubj.str (s : SvcSubj) : String :=
  let key := lower s.effective
  if s.peer = "" then key else s.peer ++ "/" ++ key

/-- publisher side: `EventPayloadCheckServiceNode.Subject()` of an event for an instance of
    `service`, with the override catalog_events.go attached to it -/
def publisherSubj (service override peer : String) : SvcSubj := ⟨service, override, peer⟩

/-- subscriber side: `PBToStreamSubscribeRequest` for `NamedSubject{Key: name, PeerName: peer}` -/
def subscriberSubj (name peer : String) : SvcSubj := ⟨name, "", peer⟩

/-- the memdb key the `service` / `connect` indexes (and the index table) file a name under -/
def indexKey (name : String) : String := lower name

/-- `EventSubjectConfigEntry.String` in the default partition / namespace -/
def cfgSubj (name : String) : String := "default/default/" ++ lower name

end CV.Stream
