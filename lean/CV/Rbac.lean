/-
CV.Rbac — model of the translation of Connect intentions into an Envoy RBAC policy (property C14).

Mirrors (consul CE: partition = namespace = `default`, no sameness groups)
  * agent/structs/intention.go   `IntentionPrecedenceSorter.Less`
  * agent/xds/rbac.go            `makeRBACRules`, `intentionListToIntermediateRBACForm`,
       `removeSameSourceIntentions`, `intentionToIntermediateRBACForm`, `removeIntentionPrecedence`,
       `removeSourcePrecedence` (REPAIRED form: an intention whose source is covered by a
       higher-precedence source is marked Skip first), `removePermissionPrecedence`,
       `rbacIntention.FlattenPrincipal` / `flattenPrincipalFromCert` / `flattenPrincipalFromXFCC`,
       `rbacPermission.Flatten`, `simplifyNotSourceSlice`, `ixnSourceMatches`, `countWild`,
       `optimizePrincipals`, `andPrincipals` / `orPrincipals` / `andPermissions`, `convertPermission`,
       `addJWTPrincipal`, `jwtClaimsToPrincipals`, `segmentToPrincipal` / `segmentToPermission`, `pathToSegments`,
       `makeSpiffePattern` (REPAIRED form: `regexp.QuoteMeta` on namespace, service and partition,
       not on the trust domain), `makeSpiffeMeshGatewayPattern`, `xfccPrincipal`
  * agent/connect/uri_service.go, uri_mesh_gateway_ce.go   the SPIFFE ids callers present
and an evaluator of the produced policy with Envoy's RBAC semantics
  (ALLOW: some policy matches; DENY: no policy matches; policy = any principal ∧ any permission).

Names are byte strings (`Bytes`; Go's `<` on strings is bytewise lexicographic = `List` `<`).
Core-only Lean; no Mathlib.
-/
import CV.Proto
namespace CV.Rbac

abbrev Name := Bytes

/-- `structs.WildcardSpecifier` = "*" -/
def star : Name := [42]

def str (s : String) : Bytes := s.toUTF8.toList.map (·.toNat)

/-! byte-string constants, written out so that proofs can compute with them; each is checked
    against its text by `#guard` (an evaluation, not a proof) -/
def cMeta : Bytes := [92, 46, 43, 42, 63, 40, 41, 124, 91, 93, 123, 125, 94, 36]
#guard cMeta == str "\\.+*?()|[]{}^$"
def cSpiffe : Bytes := [115, 112, 105, 102, 102, 101, 58, 47, 47]
#guard cSpiffe == str "spiffe://"
def cSvc : Bytes := [47, 115, 118, 99, 47]
#guard cSvc == str "/svc/"
def cGwPath : Bytes := [47, 103, 97, 116, 101, 119, 97, 121, 47, 109, 101, 115, 104, 47, 100, 99, 47]
#guard cGwPath == str "/gateway/mesh/dc/"
def cUri : Bytes := [59, 85, 82, 73, 61]
#guard cUri == str ";URI="
def cPathSafe : Bytes := [45, 95, 46, 126, 36, 38, 43, 44, 47, 58, 59, 61, 64]
#guard cPathSafe == str "-_.~$&+,/:;=@"
def cMethod : Bytes := [58, 109, 101, 116, 104, 111, 100]
#guard cMethod == str ":method"
def cAnyPath : Bytes := [91, 94, 47, 93, 43]
#guard cAnyPath == str "[^/]+"
def cDefault : Bytes := [100, 101, 102, 97, 117, 108, 116]
#guard cDefault == str "default"
def cAp : Bytes := [47, 97, 112, 47]
#guard cAp == str "/ap/"
def cNsDefaultDc : Bytes := [47, 110, 115, 47, 100, 101, 102, 97, 117, 108, 116, 47, 100, 99, 47]
#guard cNsDefaultDc == str "/ns/default/dc/"
def cCaretSpiffe : Bytes := [94, 115, 112, 105, 102, 102, 101, 58, 47, 47]
#guard cCaretSpiffe == str "^spiffe://"
def cXfccHead : Bytes := [94, 91, 94, 44, 93, 43, 59, 85, 82, 73, 61]
#guard cXfccHead == str "^[^,]+;URI="
def cXfccTail : Bytes := [40, 63, 58, 44, 46, 42, 41, 63, 36]
#guard cXfccTail == str "(?:,.*)?$"
def cNs : Bytes := [47, 110, 115, 47]
#guard cNs == str "/ns/"
def cDc : Bytes := [47, 100, 99, 47]
#guard cDc == str "/dc/"
def cJwtPayload : Bytes := [106, 119, 116, 95, 112, 97, 121, 108, 111, 97, 100, 95]
#guard cJwtPayload == str "jwt_payload_"
def cIss : Bytes := [105, 115, 115]
#guard cIss == str "iss"

/-! ## the intentions (the program being translated) -/

/-- `structs.IntentionHTTPHeaderPermission` -/
structure HdrPerm where
  name : Name
  present : Bool
  exact : Name
  pfx : Name
  sfx : Name
  contains : Name
  regex : Name
  invert : Bool
  ignoreCase : Bool
deriving DecidableEq, Repr

/-- `structs.IntentionHTTPPermission` -/
structure HttpPerm where
  pathExact : Name
  pathPrefix : Name
  pathRegex : Name
  headers : List HdrPerm
  methods : List Name
deriving DecidableEq, Repr

/-- `structs.IntentionJWTClaimVerification` -/
structure JwtClaim where
  path : List Name
  value : Name
deriving DecidableEq, Repr

/-- `structs.IntentionJWTProvider` -/
structure JwtProv where
  name : Name
  claims : List JwtClaim
deriving DecidableEq, Repr

/-- `structs.IntentionPermission`; `allow` ⇔ `Action == "allow"`; `jwt` = `JWT.Providers` (nil ⇒ []) -/
structure Perm where
  allow : Bool
  http : Option HttpPerm
  jwt : List JwtProv
deriving DecidableEq, Repr

/-- `structs.Intention` as far as `makeRBACRules` reads it; `allow` ⇔ `Action == "allow"` -/
structure Ixn where
  peer : Name
  name : Name
  dst : Name
  prec : Nat
  allow : Bool
  perms : List Perm
  jwt : List JwtProv     -- `JWT.Providers` of the config entry (nil ⇒ [])
deriving DecidableEq, Repr

/-- `pbpeering.PeeringTrustBundle` -/
structure Bundle where
  peer : Name
  td : Name
  ap : Name
deriving DecidableEq, Repr

/-- `rbacLocalInfo` + `peerTrustBundles` (in slice order) + `providerMap` (jwt-provider name ↦ issuer) -/
structure Env where
  localTd : Name
  bundles : List Bundle
  providers : List (Name × Name)
deriving DecidableEq, Repr

/-- `Intention.UpdatePrecedence` in CE (namespaces are never wildcards): exact destination 9 / 8,
    wildcard destination 6 / 5 -/
def precOf (src dst : Name) : Nat :=
  (if dst = star then 6 else 9) - (if src = star then 1 else 0)

/-! ## sorting -/

def bLt (a b : Name) : Bool := decide (a < b)

/-- `IntentionPrecedenceSorter.Less` (sameness group, partitions and namespaces are equal in CE) -/
def less (a b : Ixn) : Bool :=
  if a.prec ≠ b.prec then decide (a.prec > b.prec)
  else if a.peer ≠ b.peer then bLt a.peer b.peer
  else if a.name ≠ b.name then bLt a.name b.name
  else bLt a.dst b.dst

def ins {α : Type} (lt : α → α → Bool) (x : α) : List α → List α
  | [] => [x]
  | y :: ys => if lt y x then y :: ins lt x ys else x :: y :: ys

/-- stable insertion sort (for a comparator that is total on the elements every correct sort
    computes the same list; the harness keeps (peer, name, dst) unique) -/
def isort {α : Type} (lt : α → α → Bool) : List α → List α
  | [] => []
  | x :: xs => ins lt x (isort lt xs)

/-- `sort.Sort(structs.IntentionPrecedenceSorter(intentions))` -/
def sortIxns (xs : List Ixn) : List Ixn := isort less xs

/-! ## sources -/

/-- `rbacService` (namespace and partition of the embedded ServiceName are `default` in CE) -/
structure Src where
  name : Name
  peer : Name
  ap : Name      -- ExportedPartition
  td : Name      -- TrustDomain
deriving DecidableEq, Repr

/-- `structs.PeeredServiceName`, the key of `removeSameSourceIntentions` -/
def Src.key (s : Src) : Name × Name := (s.peer, s.name)
def Ixn.key (i : Ixn) : Name × Name := (i.peer, i.name)

/-- `countWild` (the wildcard-peer panic is `panics` below; namespace is never a wildcard in CE) -/
def countWild (s : Src) : Nat := if s.name = star then 1 else 0

/-- `ixnSourceMatches tester against` -/
def ixnSourceMatches (t a : Src) : Bool :=
  if countWild t = countWild a then false
  else if countWild t > countWild a then false
  else t.peer = a.peer && (t.name = a.name || a.name = star)

/-- `removeSameSourceIntentions`: keep the first intention of every (peer, name) -/
def dedupGo (seen : List (Name × Name)) : List Ixn → List Ixn
  | [] => []
  | i :: rest => if seen.contains i.key then dedupGo seen rest else i :: dedupGo (i.key :: seen) rest

def removeSameSource (xs : List Ixn) : List Ixn := dedupGo [] xs

/-- `trustBundlesByPeer[peer]`: the map is filled in slice order, so the LAST bundle of a name wins -/
def lookupBundle (bs : List Bundle) (peer : Name) : Option Bundle :=
  bs.reverse.find? (·.peer = peer)

/-- the `rbacService` of an intention; `none` = "peer without trust bundle, fail silently" -/
def srcOf (env : Env) (peer name : Name) : Option Src :=
  if peer = [] then some ⟨name, peer, [], env.localTd⟩
  else match lookupBundle env.bundles peer with
    | none => none
    | some b => some ⟨name, peer, b.ap, b.td⟩

/-! ## the Envoy side: matchers, permissions, principals -/

/-- `envoy.type.matcher.v3.StringMatcher` (ignore_case only where consul sets it) -/
inductive StrM
  | exact (s : Name) (ic : Bool)
  | pfx (s : Name) (ic : Bool)
  | sfx (s : Name) (ic : Bool)
  | contains (s : Name) (ic : Bool)
  | regex (s : Name)
deriving DecidableEq, Repr

inductive HdrSpec
  | present
  | str (m : StrM)
deriving DecidableEq, Repr

/-- `envoy.config.route.v3.HeaderMatcher` -/
structure HdrM where
  name : Name
  spec : HdrSpec
  invert : Bool
deriving DecidableEq, Repr

/-- `envoy.config.rbac.v3.Permission` -/
inductive Pm
  | any
  | urlPath (m : StrM)
  | header (h : HdrM)
  | mdata (path : List Name) (value : Name)   -- dynamic metadata of envoy.filters.http.jwt_authn, exact string
  | andRules (l : List Pm)
  | orRules (l : List Pm)
  | notRule (p : Pm)
deriving Repr

/-- `envoy.config.rbac.v3.Principal`; the three leaves are the three regular expressions consul emits -/
inductive Pr
  | id (s : Src)       -- authenticated.principal_name ~ makeSpiffePattern(s)
  | gw (td : Name)     -- authenticated.principal_name ~ makeSpiffeMeshGatewayPattern(td)
  | xfcc (s : Src)     -- header x-forwarded-client-cert ~ first element has URI matching s
  | mdata (path : List Name) (value : Name)   -- dynamic metadata of envoy.filters.http.jwt_authn, exact string
  | andIds (l : List Pr)
  | orIds (l : List Pr)
  | notId (p : Pr)
deriving Repr

structure Policy where
  principals : List Pr
  permissions : List Pm
deriving Repr

/-- policy names: `consul-intentions-layer7-<i>` / `consul-intentions-layer4` -/
inductive PolName
  | l7 (i : Nat)
  | l4
deriving DecidableEq, Repr

/-- `envoy.config.rbac.v3.RBAC`; `allowAction` ⇔ action ALLOW -/
structure Rbac where
  allowAction : Bool
  policies : List (PolName × Policy)
deriving Repr

/-! ## requests and permission evaluation -/

/-- an HTTP request as the RBAC filter sees it. `headers`: lower-case name ↦ value, including the
    pseudo header `:method`; `rx`: the (pattern, subject) pairs that RE2 full-matches (regular
    expressions written by the user are not interpreted by the model; the harness supplies the
    oracle from Go's `regexp`) -/
structure Req where
  path : Name
  headers : List (Name × Name)
  rx : List (Name × Name)
  jmeta : List (List Name × Name)   -- string values in the jwt_authn dynamic metadata, by path
deriving DecidableEq, Repr

def reqHas (r : Req) (path : List Name) (value : Name) : Bool := r.jmeta.contains (path, value)

def lowerByte (b : Nat) : Nat := if 65 ≤ b ∧ b ≤ 90 then b + 32 else b
def lower (s : Name) : Name := s.map lowerByte

def isInfix (p : Name) : Name → Bool
  | [] => p.isEmpty
  | c :: s => p.isPrefixOf (c :: s) || isInfix p s

def hdrVal (r : Req) (n : Name) : Option Name := r.headers.lookup (lower n)

def rxMatch (r : Req) (pat subj : Name) : Bool := r.rx.contains (pat, subj)

def strMatch (r : Req) : StrM → Name → Bool
  | .exact s ic, v => if ic then lower v == lower s else v == s
  | .pfx s ic, v => if ic then (lower s).isPrefixOf (lower v) else s.isPrefixOf v
  | .sfx s ic, v => if ic then (lower s).isSuffixOf (lower v) else s.isSuffixOf v
  | .contains s ic, v => if ic then isInfix (lower s) (lower v) else isInfix s v
  | .regex p, v => rxMatch r p v

/-- Envoy `HeaderUtility::matchHeaders`: a missing header matches only `present_match` + invert -/
def hdrMatch (r : Req) (h : HdrM) : Bool :=
  match hdrVal r h.name with
  | none => (match h.spec with | .present => h.invert | .str _ => false)
  | some v => (match h.spec with | .present => true | .str m => strMatch r m v) != h.invert

mutual
def evalPm (r : Req) : Pm → Bool
  | .any => true
  | .urlPath m => strMatch r m r.path
  | .header h => hdrMatch r h
  | .mdata p v => reqHas r p v
  | .andRules l => evalPmAll r l
  | .orRules l => evalPmAny r l
  | .notRule p => !evalPm r p
def evalPmAll (r : Req) : List Pm → Bool
  | [] => true
  | p :: ps => evalPm r p && evalPmAll r ps
def evalPmAny (r : Req) : List Pm → Bool
  | [] => false
  | p :: ps => evalPm r p || evalPmAny r ps
end

/-! ## principal evaluation, generic in the meaning of the three leaves -/

/-- meaning of the three kinds of principal leaves for a caller type `C` -/
structure Sem (C : Type) where
  idM : Src → C → Bool
  gwM : Name → C → Bool
  xfccM : Src → C → Bool
  metaM : List Name → Name → C → Bool

mutual
def evalPr {C : Type} (σ : Sem C) (c : C) : Pr → Bool
  | .id s => σ.idM s c
  | .gw td => σ.gwM td c
  | .xfcc s => σ.xfccM s c
  | .mdata p v => σ.metaM p v c
  | .andIds l => evalPrAll σ c l
  | .orIds l => evalPrAny σ c l
  | .notId p => !evalPr σ c p
def evalPrAll {C : Type} (σ : Sem C) (c : C) : List Pr → Bool
  | [] => true
  | p :: ps => evalPr σ c p && evalPrAll σ c ps
def evalPrAny {C : Type} (σ : Sem C) (c : C) : List Pr → Bool
  | [] => false
  | p :: ps => evalPr σ c p || evalPrAny σ c ps
end

def evalPolicy {C : Type} (σ : Sem C) (c : C) (r : Req) (p : Policy) : Bool :=
  p.principals.any (evalPr σ c) && p.permissions.any (evalPm r)

/-- Envoy RBAC engine: ALLOW ⇒ allowed iff some policy matches; DENY ⇒ allowed iff none does -/
def evalRbac {C : Type} (σ : Sem C) (rb : Rbac) (c : C) (r : Req) : Bool :=
  let hit := rb.policies.any (fun p => evalPolicy σ c r p.2)
  if rb.allowAction then hit else !hit

/-! ## `convertPermission` -/

def andPermissions : List Pm → Pm
  | [] => .any
  | [p] => p
  | l => .andRules l

def orPermissions : List Pm → Pm
  | [] => .any
  | [p] => p
  | l => .orRules l

def andPrincipals : List Pr → Pr
  | [p] => p
  | l => .andIds l

def orPrincipals : List Pr → Pr
  | [p] => p
  | l => .orIds l

/-- the `switch` over the header kinds (first non-empty field wins; nothing set ⇒ skipped) -/
def convertHeader (h : HdrPerm) : Option HdrM :=
  if h.exact ≠ [] then some ⟨h.name, .str (.exact h.exact h.ignoreCase), h.invert⟩
  else if h.regex ≠ [] then some ⟨h.name, .str (.regex h.regex), h.invert⟩
  else if h.pfx ≠ [] then some ⟨h.name, .str (.pfx h.pfx h.ignoreCase), h.invert⟩
  else if h.sfx ≠ [] then some ⟨h.name, .str (.sfx h.sfx h.ignoreCase), h.invert⟩
  else if h.contains ≠ [] then some ⟨h.name, .str (.contains h.contains h.ignoreCase), h.invert⟩
  else if h.present then some ⟨h.name, .present, h.invert⟩
  else none

def joinBar : List Name → Name
  | [] => []
  | [m] => m
  | m :: ms => m ++ [124] ++ joinBar ms

def methodHdr : Name := cMethod

def pathPart (h : HttpPerm) : List Pm :=
  if h.pathExact ≠ [] then [.urlPath (.exact h.pathExact false)]
  else if h.pathPrefix ≠ [] then [.urlPath (.pfx h.pathPrefix false)]
  else if h.pathRegex ≠ [] then [.urlPath (.regex h.pathRegex)]
  else []

def methodPart (h : HttpPerm) : List Pm :=
  if h.methods ≠ [] then [.header ⟨methodHdr, .str (.regex (joinBar h.methods)), false⟩] else []

def convertPermission (p : Perm) : Pm :=
  match p.http with
  | none => .any
  | some h =>
    andPermissions (pathPart h ++ (h.headers.filterMap convertHeader).map Pm.header ++ methodPart h)

/-! ## intermediate form -/

inductive Act | deny | allow | l7
deriving DecidableEq, Repr

/-- `JWTInfo`: an intention's provider with the issuer of its jwt-provider config entry -/
structure JwtInfo where
  name : Name
  issuer : Name
  claims : List JwtClaim
deriving DecidableEq, Repr

/-- the `providerMap[prov.Name]` lookups; a provider without config entry is an error of
    `makeRBACRules` (`jwtMissing` below), here it is skipped -/
def resolveJwt (env : Env) (ps : List JwtProv) : List JwtInfo :=
  ps.filterMap fun p => (env.providers.lookup p.name).map fun iss => ⟨p.name, iss, p.claims⟩

def jwtUnknown (env : Env) (ps : List JwtProv) : Bool := ps.any fun p => (env.providers.lookup p.name).isNone

/-- `rbacPermission` -/
structure RPerm where
  allow : Bool
  pm : Pm
  jwt : List JwtInfo
deriving Repr

/-- `rbacIntention` before precedence removal -/
structure RIxn where
  src : Src
  act : Act
  perms : List RPerm
  jwt : List JwtInfo
deriving Repr

/-- `intentionToIntermediateRBACForm` (JWT only on HTTP listeners) -/
def toRIxn (env : Env) (http : Bool) (s : Src) (i : Ixn) : RIxn :=
  let jwt := if http then resolveJwt env i.jwt else []
  if i.perms ≠ [] then
    if http then ⟨s, .l7, i.perms.map fun p => ⟨p.allow, convertPermission p, resolveJwt env p.jwt⟩, jwt⟩
    else ⟨s, .deny, [], jwt⟩
  else ⟨s, if i.allow then .allow else .deny, [], jwt⟩

/-- `intentionListToIntermediateRBACForm` after the sort and `removeSameSourceIntentions` -/
def toRIxns (env : Env) (http : Bool) (xs : List Ixn) : List RIxn :=
  xs.filterMap fun i => (srcOf env i.peer i.name).map fun s => toRIxn env http s i

/-- `makeRBACRules` returns an error when an intention that reaches the conversion (trust bundle
    present) names a JWT provider without jwt-provider config entry -/
def jwtMissing (env : Env) (http : Bool) (xs : List Ixn) : Bool :=
  http && xs.any fun i =>
    (srcOf env i.peer i.name).isSome && (jwtUnknown env i.jwt || i.perms.any fun p => jwtUnknown env p.jwt)

def dfltAct (dflt : Bool) : Act := if dflt then .allow else .deny

/-! ## `simplifyNotSourceSlice` -/

def insBy {α : Type} (key : α → Nat) (x : α) : List α → List α
  | [] => [x]
  | y :: ys => if key y < key x then y :: insBy key x ys else x :: y :: ys

/-- `sort.SliceStable` by `countWild` (stable insertion from the right) -/
def stableSortBy {α : Type} (key : α → Nat) : List α → List α
  | [] => []
  | x :: xs => insBy key x (stableSortBy key xs)

def keepNotCovered : List Src → List Src
  | [] => []
  | s :: rest => if rest.any (ixnSourceMatches s) then keepNotCovered rest else s :: keepNotCovered rest

def simplifyNotSources (l : List Src) : List Src :=
  if l.length ≤ 1 then l else keepNotCovered (stableSortBy countWild l)

/-! ## principals -/

/-- `flattenPrincipalFromCert` -/
def flattenFromCert (s : Src) (nots : List Src) : Pr :=
  let ns := simplifyNotSources nots
  if ns = [] then .id s else andPrincipals (.id s :: ns.map fun n => .notId (.id n))

/-- `flattenPrincipalFromXFCC` -/
def flattenFromXFCC (s : Src) (nots : List Src) : Pr :=
  let ns := simplifyNotSources nots
  if ns = [] then .xfcc s else andPrincipals (.xfcc s :: ns.map fun n => .notId (.xfcc n))

/-- `buildPayloadInMetadataKey` -/
def payloadKey (provider : Name) : Name := cJwtPayload ++ provider

/-- one provider of `addJWTPrincipal`: issuer, and the claims if any -/
def jwtPr (i : JwtInfo) : Pr :=
  let key := payloadKey i.name
  let p : Pr := .mdata [key, cIss] i.issuer
  if i.claims = [] then p
  else andPrincipals [p, andPrincipals (i.claims.map fun c => .mdata (key :: c.path) c.value)]

/-- `addJWTPrincipal` -/
def addJWTPrincipal (p : Pr) (infos : List JwtInfo) : Pr :=
  if infos = [] then p else andPrincipals [p, orPrincipals (infos.map jwtPr)]

/-- the principal without the JWT part -/
def flattenSource (env : Env) (xf : Bool) (s : Src) (nots : List Src) : Pr :=
  if !xf then flattenFromCert s nots
  else if s.peer = [] then flattenFromCert s nots
  else andPrincipals [.gw env.localTd, flattenFromXFCC s nots]

/-- `rbacIntention.FlattenPrincipal` -/
def flattenPrincipal (env : Env) (xf : Bool) (s : Src) (nots : List Src) (jwt : List JwtInfo) : Pr :=
  addJWTPrincipal (flattenSource env xf s nots) jwt

/-! ## `removeSourcePrecedence` -/

/-- `rbacIntention` after source precedence has been removed -/
structure SIxn where
  src : Src
  act : Act
  perms : List RPerm
  jwt : List JwtInfo
  nots : List Src
  principal : Pr
deriving Repr

/-- The two loops of `removeSourcePrecedence` as one walk; `rp` = the intentions already passed,
    nearest first. Intention `x` is dropped when a higher-precedence source covers its source
    (first loop) or when its action equals the default action; otherwise it receives `NOT i` for
    every higher-precedence `i` whose source it covers — the backward outer loop appends them
    nearest first, and it appends also those `i` that are themselves dropped. -/
def rspGo (env : Env) (xf : Bool) (dflt : Bool) (rp : List RIxn) : List RIxn → List SIxn
  | [] => []
  | x :: rest =>
    let shadowed := rp.any fun i => ixnSourceMatches x.src i.src
    let nots := (rp.filter fun i => ixnSourceMatches i.src x.src).map (·.src)
    let tail := rspGo env xf dflt (x :: rp) rest
    if shadowed || x.act = dfltAct dflt then tail
    else ⟨x.src, x.act, x.perms, x.jwt, nots, flattenPrincipal env xf x.src nots x.jwt⟩ :: tail

def removeSourcePrecedence (env : Env) (xf : Bool) (dflt : Bool) (xs : List RIxn) : List SIxn :=
  rspGo env xf dflt [] xs

/-! ## `removePermissionPrecedence` -/

/-- one provider of `rbacPermission.Flatten`: issuer AND all claims (`ANY` when there are none) -/
def jwtPm (i : JwtInfo) : Pm :=
  let key := payloadKey i.name
  andPermissions [.mdata [key, cIss] i.issuer, andPermissions (i.claims.map fun c => .mdata (key :: c.path) c.value)]

/-- `rbacPermission.Flatten` -/
def flattenPerm (pm : Pm) (nots : List Pm) (jwt : List JwtInfo) : Pm :=
  let c := if nots = [] then pm else andPermissions (pm :: nots.map Pm.notRule)
  if jwt = [] then c else andPermissions [c, orPermissions (jwt.map jwtPm)]

/-- `rp` = the permissions already passed, nearest first: every later permission gets `NOT` of
    every earlier one (also of the dropped ones); a permission whose action equals the default
    action is dropped -/
def rppGo (dflt : Bool) (rp : List RPerm) : List RPerm → List Pm
  | [] => []
  | p :: rest =>
    let tail := rppGo dflt (p :: rp) rest
    if p.allow = dflt then tail else flattenPerm p.pm (rp.map (·.pm)) p.jwt :: tail

def removePermissionPrecedence (dflt : Bool) (ps : List RPerm) : List Pm := rppGo dflt [] ps

/-- `rbacIntention` after `removeIntentionPrecedence` -/
structure FIxn where
  act : Act
  principal : Pr
  cperms : List Pm
deriving Repr

/-- `removeIntentionPrecedence`: L7 intentions whose permissions were all dropped are dropped -/
def removeIntentionPrecedence (env : Env) (xf : Bool) (dflt : Bool) (xs : List RIxn) : List FIxn :=
  (removeSourcePrecedence env xf dflt xs).filterMap fun x =>
    let ps := removePermissionPrecedence dflt x.perms
    if x.act = .l7 ∧ ps.isEmpty then none else some ⟨x.act, x.principal, ps⟩

/-! ## policy assembly -/

/-- the loop of `optimizePrincipals`: the ids of all ORs, or `none` at the first non-OR -/
def collectOrIds : List Pr → Option (List Pr)
  | [] => some []
  | .orIds l :: rest => (collectOrIds rest).map (l ++ ·)
  | _ :: _ => none

/-- `optimizePrincipals`: if every principal is an OR, merge them into one OR -/
def optimizePrincipals (ps : List Pr) : List Pr :=
  match collectOrIds ps with
  | some ids => [orPrincipals ids]
  | none => ps

def l7Policies : Nat → List FIxn → List (PolName × Policy)
  | _, [] => []
  | i, x :: xs =>
    if x.act = .l7 then (.l7 i, ⟨optimizePrincipals [x.principal], x.cperms⟩) :: l7Policies (i + 1) xs
    else l7Policies (i + 1) xs

def l4Principals (xs : List FIxn) : List Pr := (xs.filter fun x => x.act ≠ .l7).map (·.principal)

def assemble (dflt : Bool) (xs : List FIxn) : Rbac :=
  let l4 := l4Principals xs
  ⟨!dflt, l7Policies 0 xs ++ (if l4.isEmpty then [] else [(.l4, ⟨optimizePrincipals l4, [.any]⟩)])⟩

/-! ## `makeRBACRules` -/

/-- `localInfo.expectXFCC` -/
def expectXFCC (env : Env) (http : Bool) (ixns : List Ixn) : Bool :=
  http && !env.bundles.isEmpty && ixns.any (·.peer ≠ [])

/-- the intentions in intermediate form, in precedence order -/
def intermediate (env : Env) (http : Bool) (ixns : List Ixn) : List RIxn :=
  toRIxns env http (removeSameSource (sortIxns ixns))

/-- `countWild` / `makeSpiffePattern` panic on a wildcard peer: with two or more intentions the
    first `ixnSourceMatches` call reaches it, with one intention only when it is retained -/
def panics (dflt : Bool) : List RIxn → Bool
  | [] => false
  | [x] => x.src.peer = star && x.act ≠ dfltAct dflt
  | xs => xs.any (·.src.peer = star)

/-- `makeRBACRules`; `none` = error (unknown JWT provider) or panic (wildcard peer) -/
def translate (env : Env) (ixns : List Ixn) (dflt http : Bool) : Option Rbac :=
  let rs := intermediate env http ixns
  if jwtMissing env http (removeSameSource (sortIxns ixns)) then none
  else if panics dflt rs then none
  else some (assemble dflt (removeIntentionPrecedence env (expectXFCC env http ixns) dflt rs))

/-! ## the specification: intention precedence -/

/-- does the (spec-level) permission match the request? -/
def hdrPermMatches (r : Req) (h : HdrPerm) : Bool :=
  match convertHeader h with
  | none => true          -- a header condition without any test is ignored
  | some m => hdrMatch r m

def methodMatches (r : Req) (ms : List Name) : Bool :=
  ms = [] || (match hdrVal r methodHdr with | none => false | some m => ms.contains m)

def pathMatches (r : Req) (h : HttpPerm) : Bool :=
  if h.pathExact ≠ [] then r.path == h.pathExact
  else if h.pathPrefix ≠ [] then h.pathPrefix.isPrefixOf r.path
  else if h.pathRegex ≠ [] then rxMatch r h.pathRegex r.path
  else true

def permMatches (r : Req) (p : Perm) : Bool :=
  match p.http with
  | none => true
  | some h => pathMatches r h && h.headers.all (hdrPermMatches r) && methodMatches r h.methods

/-- is the JWT requirement met? `has path value`: the validated token payload has that string.
    No providers ⇒ no requirement; otherwise one provider must fit with issuer and all claims. -/
def jwtSat (has : List Name → Name → Bool) (infos : List JwtInfo) : Bool :=
  infos.isEmpty || infos.any fun i =>
    has [payloadKey i.name, cIss] i.issuer && i.claims.all fun c => has (payloadKey i.name :: c.path) c.value

/-- what an intention decides once it is the one that matches the caller. A JWT requirement
    (HTTP listeners only) that is not met sends the decision to the default policy. -/
def verdict (env : Env) (dflt http : Bool) (has : List Name → Name → Bool) (r : Req) (i : Ixn) : Bool :=
  if http && !jwtSat has (resolveJwt env i.jwt) then dflt
  else if i.perms = [] then i.allow
  else if !http then false       -- L7 intentions on a TCP listener are treated as deny
  else match i.perms.find? (permMatches r) with
    | none => dflt               -- no permission matches: default policy
    | some p =>                  -- first matching permission decides, if its JWT requirement is met
      if jwtSat (reqHas r) (resolveJwt env p.jwt) then p.allow else dflt

/-- `m peer name`: does the caller match that source? (`false` for a peer without trust bundle) -/
def specAllowM (env : Env) (m : Name → Name → Bool) (has : List Name → Name → Bool) (ixns : List Ixn)
    (dflt http : Bool) (r : Req) : Bool :=
  match (sortIxns ixns).find? (fun i => m i.peer i.name) with
  | none => dflt
  | some i => verdict env dflt http has r i

/-- the matcher of a source as the policy encodes it -/
def srcM {C : Type} (σ : Sem C) (env : Env) (xf : Bool) (s : Src) (c : C) : Bool :=
  if xf && s.peer ≠ [] then σ.gwM env.localTd c && σ.xfccM s c else σ.idM s c

def ixnM {C : Type} (σ : Sem C) (env : Env) (xf : Bool) (c : C) (peer name : Name) : Bool :=
  match srcOf env peer name with
  | none => false
  | some s => srcM σ env xf s c

/-- The intention decision: the highest-precedence intention whose source matches the caller
    decides; for an L7 intention the first permission that matches the request decides; nothing
    matches ⇒ the default policy. -/
def specAllow {C : Type} (σ : Sem C) (env : Env) (ixns : List Ixn) (dflt http : Bool) (c : C) (r : Req) : Bool :=
  specAllowM env (ixnM σ env (expectXFCC env http ixns) c) (fun p v => σ.metaM p v c) ixns dflt http r

/-! ## the regular-expression layer: pattern text, its meaning, and the ids callers present -/

def metaBytes : List Nat := cMeta

/-- `regexp.QuoteMeta` -/
def quoteMeta : Bytes → Bytes
  | [] => []
  | b :: s => if metaBytes.contains b then 92 :: b :: quoteMeta s else b :: quoteMeta s

def anyPath : Bytes := cAnyPath

/-- `SpiffeIDService.PartitionOrDefault` (CE): "" ⇒ "default", otherwise lower-cased -/
def apName (ap : Bytes) : Bytes := if ap = [] then cDefault else lower ap

/-- partition as `SpiffeIDService.uriPath` prints it (CE): "default" ⇒ no segment,
    otherwise `/ap/<name>` -/
def apSeg (ap : Bytes) : Bytes := if apName ap = cDefault then [] else cAp ++ apName ap

/-- the partition `makeSpiffePattern` puts into the id: ExportedPartition for a peered source,
    the local `default` otherwise -/
def srcAp (s : Src) : Bytes := if s.peer ≠ [] then s.ap else cDefault

/-- `makeSpiffePattern` without the anchors -/
def idPatternBody (s : Src) : Bytes :=
  cSpiffe ++ s.td ++ apSeg (quoteMeta (srcAp s)) ++ cNsDefaultDc ++ anyPath ++ cSvc
    ++ (if s.name = star then anyPath else quoteMeta s.name)

/-- `makeSpiffePattern` -/
def idPattern (s : Src) : Bytes := [94] ++ idPatternBody s ++ [36]

/-- `makeSpiffeMeshGatewayPattern` (CE: the partition is not printed) -/
def gwPattern (td : Bytes) : Bytes := cCaretSpiffe ++ td ++ cGwPath ++ anyPath ++ [36]

/-- the pattern of `xfccPrincipal` -/
def xfccPattern (s : Src) : Bytes := cXfccHead ++ idPatternBody s ++ cXfccTail

/-- what those patterns mean (RE2 and `QuoteMeta` are trusted for this reading) -/
inductive Tok
  | lit (s : Bytes)    -- quoted literal
  | host (s : Bytes)   -- unquoted trust domain: `.` matches any byte but newline
  | seg                -- [^/]+
  | notComma           -- [^,]+
  | tail               -- (?:,.*)?$
deriving DecidableEq, Repr

def dropLit : Bytes → Bytes → Option Bytes
  | [], s => some s
  | _ :: _, [] => none
  | a :: l, b :: s => if a = b then dropLit l s else none

def dropHost : Bytes → Bytes → Option Bytes
  | [], s => some s
  | _ :: _, [] => none
  | a :: l, b :: s => if a = b || (a = 46 && b ≠ 10) then dropHost l s else none

/-- one or more bytes of the class, then the continuation -/
def matchPlus (cls : Nat → Bool) (k : Bytes → Bool) : Bytes → Bool
  | [] => false
  | c :: s => cls c && (k s || matchPlus cls k s)

def matchToks : List Tok → Bytes → Bool
  | [] => fun s => s.isEmpty
  | .lit l :: rest => fun s => match dropLit l s with | some s' => matchToks rest s' | none => false
  | .host h :: rest => fun s => match dropHost h s with | some s' => matchToks rest s' | none => false
  | .seg :: rest => matchPlus (· ≠ 47) (matchToks rest)
  | .notComma :: rest => matchPlus (· ≠ 44) (matchToks rest)
  | .tail :: _ => fun s => match s with
      | [] => true
      | c :: t => c = 44 && t.all (· ≠ 10)

def idToksBody (s : Src) : List Tok :=
  [.lit cSpiffe, .host s.td, .lit (apSeg (srcAp s) ++ cNsDefaultDc), .seg, .lit cSvc,
   if s.name = star then .seg else .lit s.name]

def idToks (s : Src) : List Tok := idToksBody s
def gwToks (td : Bytes) : List Tok := [.lit cSpiffe, .host td, .lit cGwPath, .seg]
def xfccToks (s : Src) : List Tok := [.notComma, .lit cUri] ++ idToksBody s ++ [.tail]

/-- what a caller presents on the wire -/
structure Wire where
  principal : Bytes          -- URI SAN of the TLS peer certificate
  xfcc : Option Bytes        -- x-forwarded-client-cert request header
  jmeta : List (List Name × Name)   -- jwt_authn dynamic metadata of the request
deriving DecidableEq, Repr

/-- the meaning of the principal leaves on wire data -/
def wireSem : Sem Wire where
  idM s c := matchToks (idToks s) c.principal
  gwM td c := matchToks (gwToks td) c.principal
  xfccM s c := match c.xfcc with | none => false | some h => matchToks (xfccToks s) h
  metaM p v c := c.jmeta.contains (p, v)

/-- a SPIFFE identity -/
inductive Ident
  | svc (td ap ns dc name : Bytes)
  | gw (td dc : Bytes)
  | raw (s : Bytes)
deriving DecidableEq, Repr

/-- bytes that `net/url` leaves alone in a path (`shouldEscape(c, encodePath) = false`) -/
def pathSafeByte (b : Nat) : Bool :=
  (48 ≤ b && b ≤ 57) || (65 ≤ b && b ≤ 90) || (97 ≤ b && b ≤ 122) || cPathSafe.contains b

def upperHex (n : Nat) : Nat := if n < 10 then 48 + n else 55 + n

/-- `url.URL.EscapedPath` for a path given in `Path` only (`escape(s, encodePath)`) -/
def escapePath : Bytes → Bytes
  | [] => []
  | b :: s => if pathSafeByte b then b :: escapePath s else 37 :: upperHex (b / 16) :: upperHex (b % 16) :: escapePath s

/-- `SpiffeIDService.URI().String()` / `SpiffeIDMeshGateway.URI().String()`: what the certificate's
    URI SAN says. The path is URL-escaped; the trust domain is assumed to need no host escaping. -/
def spiffe : Ident → Bytes
  | .svc td ap ns dc name =>
    cSpiffe ++ td ++ escapePath (apSeg ap ++ cNs ++ ns ++ cDc ++ dc ++ cSvc ++ name)
  | .gw td dc => cSpiffe ++ td ++ escapePath (cGwPath ++ dc)
  | .raw s => s

/-- one element of an XFCC header: everything before `;URI=` and the URI -/
structure XElem where
  pre : Bytes
  uri : Ident
deriving DecidableEq, Repr

def xfccElem (e : XElem) : Bytes := e.pre ++ cUri ++ spiffe e.uri

def xfccHeader : List XElem → Bytes
  | [] => []
  | [e] => xfccElem e
  | e :: es => xfccElem e ++ [44] ++ xfccHeader es

/-- a caller, structured -/
structure Caller where
  direct : Ident                    -- identity of the TLS peer
  fwd : Option (List XElem)         -- XFCC header, if any
  jmeta : List (List Name × Name)    -- validated JWT payloads (jwt_authn dynamic metadata)
deriving DecidableEq, Repr

def wire (c : Caller) : Wire := ⟨spiffe c.direct, c.fwd.map xfccHeader, c.jmeta⟩

/-- trust domains are compared through the unquoted pattern -/
def hostEq : Bytes → Bytes → Bool
  | [], [] => true
  | a :: l, b :: s => (a = b || (a = 46 && b ≠ 10)) && hostEq l s
  | _, _ => false

/-- does the identity belong to the source? (structured reading of `makeSpiffePattern`) -/
def identM (s : Src) : Ident → Bool
  | .svc td ap ns _ name =>
    td = s.td && apSeg ap = apSeg (srcAp s) && ns = cDefault && (s.name = star || name = s.name)
  | _ => false

def isGw (td : Bytes) : Ident → Bool
  | .gw t _ => t = td
  | _ => false

/-- structured meaning of the three leaves -/
def callerSem : Sem Caller where
  idM s c := identM s c.direct
  gwM td c := isGw td c.direct
  xfccM s c := match c.fwd with
    | some (e :: _) => identM s e.uri
    | _ => false
  metaM p v c := c.jmeta.contains (p, v)

end CV.Rbac
