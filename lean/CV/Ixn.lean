/-
CV.Ixn — model of Connect intention storage, matching and decisions (property C13).

Mirrors (consul CE: partition = namespace = `default`, no sameness groups)
  * agent/structs/intention.go              `UpdatePrecedence`, `IntentionPrecedenceSorter.Less`
  * agent/structs/config_entry_intentions.go `normalize` (precedence + `sort.SliceStable`), `validate`,
                                             `ToIntention(s)`, `UpsertSourceByName`, `DeleteSourceByName`
  * agent/connect/authz.go                   `IntentionMatch` / `AuthorizeIntentionTarget`
  * agent/consul/state/intention.go          `IntentionDecision`, `IntentionMutation` (upsert / delete),
                                             `LegacyIntentionSet/Delete`, legacy match (`intentionMatchGetParams`)
  * agent/consul/state/config_entry_intention.go  `readSourceIntentionsFromConfigEntriesTxn`,
                                             `readDestinationIntentionsFromConfigEntriesTxn`, `configIntentionsListTxn`
  * agent/consul/intention_endpoint.go       `Check` (source match, then destination decision)
  * agent/agent_endpoint.go                  authorize (destination match, then source decision)

Names are byte strings (`Bytes`; Go's `<` on strings is bytewise lexicographic = `List` `<`).
Core-only Lean; no Mathlib.
-/
import CV.Proto
namespace CV.Ixn

abbrev Name := Bytes

/-- `structs.WildcardSpecifier` = "*" -/
def star : Name := [42]

/-- `strings.ToLower` on the ASCII letters (what memdb's `Lowercase: true` string indexes and the
    config-entry primary key apply to names; non-ASCII upper-case letters are outside the model) -/
def lc (n : Name) : Name := n.map fun b => if 65 ≤ b ∧ b ≤ 90 then b + 32 else b

/-- equality of memdb index keys: names that differ only in letter case collide -/
def sameName (a b : Name) : Bool := lc a = lc b

/-- `IntentionAction` as the validators see it: "allow", "deny", "" (omitted) or anything else -/
inductive Act | allow | deny | none | bad
deriving DecidableEq, Repr

/-- a `SourceIntention` inside a service-intentions config entry -/
structure Src where
  peer  : Name          -- "" = local cluster
  name  : Name
  act   : Act
  perms : Nat           -- number of L7 permissions (each individually well-formed)
  prec  : Nat           -- stored `Precedence` (recomputed by `normalize`)
  lid   : Name := []    -- `LegacyID` ("" unless written through the legacy intention API)
deriving DecidableEq, Repr

/-- a flattened `structs.Intention` -/
structure Ixn where
  peer  : Name
  src   : Name
  dst   : Name
  act   : Act
  perms : Nat
  prec  : Nat
deriving DecidableEq, Repr

/-- the sort / uniqueness key of an intention -/
def Ixn.key (i : Ixn) : Name × Name × Name := (i.peer, i.src, i.dst)

/-! ### precedence -/

/-- `intentionCountExact` / `countExact` with the namespace fixed to `default`: 1 for `*`, else 2 -/
def countExact (n : Name) : Nat := if n = star then 1 else 2

/-- `computeIntentionPrecedence` / `UpdatePrecedence` -/
def precOf (src dst : Name) : Nat :=
  let max := match countExact dst with
    | 2 => 9
    | 1 => 6
    | _ => 3
  max - (2 - countExact src)

def bLt (a b : Name) : Bool := decide (a < b)

/-- `IntentionPrecedenceSorter.Less` (sameness group, partitions and namespaces are equal in CE) -/
def less (a b : Ixn) : Bool :=
  if a.prec ≠ b.prec then decide (a.prec > b.prec)
  else if a.peer ≠ b.peer then bLt a.peer b.peer
  else if a.src ≠ b.src then bLt a.src b.src
  else bLt a.dst b.dst

/-! ### sorting (stable insertion sort; for a comparator that is total on the elements every
    correct sort computes the same list, which is the point of `sort_perm_invariant`) -/

def ins {α : Type} (lt : α → α → Bool) (x : α) : List α → List α
  | [] => [x]
  | y :: ys => if lt y x then y :: ins lt x ys else x :: y :: ys

def isort {α : Type} (lt : α → α → Bool) : List α → List α
  | [] => []
  | x :: xs => ins lt x (isort lt xs)

/-- `sort.Sort(structs.IntentionPrecedenceSorter(ixns))` -/
def sortIxns (xs : List Ixn) : List Ixn := isort less xs

/-! ### matching and decision -/

inductive Side | source | destination
deriving DecidableEq, Repr

/-- `connect.IntentionMatch` (partitions equal; target namespace = `default` = every stored namespace) -/
def ixnMatch (side : Side) (peer target : Name) (i : Ixn) : Bool :=
  match side with
  | .destination => !(i.dst ≠ star && i.dst ≠ target)
  | .source => i.peer = peer && !(i.src ≠ star && i.src ≠ target)

structure Decision where
  allowed  : Bool
  hasPerms : Bool
  hasExact : Bool
deriving DecidableEq, Repr

/-- what the decision is once the matching intention (if any) is known -/
def verdict (m : Option Ixn) (defaultAllow allowPerms : Bool) : Decision :=
  match m with
  | none => ⟨defaultAllow, false, false⟩
  | some i =>
    ⟨if i.perms > 0 then allowPerms else decide (i.act = .allow), decide (i.perms > 0),
     decide (i.src ≠ star ∧ i.dst ≠ star)⟩

/-- `Store.IntentionDecision`: first intention of the given list that matches the target -/
def decision (ixns : List Ixn) (side : Side) (peer target : Name) (defaultAllow allowPerms : Bool) : Decision :=
  verdict (ixns.find? (ixnMatch side peer target)) defaultAllow allowPerms

/-! ### config entries -/

structure Entry where
  name    : Name
  sources : List Src
deriving DecidableEq, Repr

/-- `ServiceIntentionsConfigEntry.ToIntention` -/
def toIxn (e : Entry) (s : Src) : Ixn := ⟨s.peer, s.name, e.name, s.act, s.perms, s.prec⟩

def Entry.toIxns (e : Entry) : List Ixn := e.sources.map (toIxn e)

/-- `normalize(legacyWrite)`: recompute precedences, clear legacy ids on a non-legacy write, then
    `sort.SliceStable` by descending precedence -/
def normSrc (legacy : Bool) (dst : Name) (s : Src) : Src :=
  { s with prec := precOf s.name dst, lid := if legacy then s.lid else [] }

def precGt (a b : Src) : Bool := decide (a.prec > b.prec)

def normalize (legacy : Bool) (e : Entry) : Entry :=
  ⟨e.name, isort precGt (e.sources.map (normSrc legacy e.name))⟩

inductive Err
  | nameRequired | dstPartialWildcard | noSources | srcNameRequired | srcPartialWildcard | peerWildcard
  | legacyPeer | legacyIdRequired | actionInvalid | actionWithPerms | permsOnWildDst | dupSource
  | legacyDisabled | notConfigMode | missingId | dupLegacy | legacyEditNotAllowed | notFound
deriving DecidableEq, Repr

def partialWild (n : Name) : Bool := n ≠ star && n.contains 42

/-- the per-source part of `validate(legacyWrite)`; `seen` = qualified names of the earlier sources -/
def validateSources (legacy : Bool) (destIsWild : Bool) : List Src → List (Name × Name) → Option Err
  | [], _ => none
  | s :: rest, seen =>
    if s.name = [] then some .srcNameRequired
    else if partialWild s.name then some .srcPartialWildcard
    else if s.peer.contains 42 then some .peerWildcard
    else if legacy && s.peer ≠ [] then some .legacyPeer
    else if legacy && s.lid = [] then some .legacyIdRequired
    else if (legacy || s.perms = 0) && !(s.act = .allow || s.act = .deny) then some .actionInvalid
    else if s.perms > 0 && s.act ≠ .none then some .actionWithPerms
    else if destIsWild && s.perms > 0 then some .permsOnWildDst
    else if seen.contains (s.peer, s.name) then some .dupSource
    else validateSources legacy destIsWild rest ((s.peer, s.name) :: seen)

/-- `ServiceIntentionsConfigEntry.validate(legacyWrite)` on an already normalized entry -/
def validate (legacy : Bool) (e : Entry) : Option Err :=
  if e.name = [] then some .nameRequired
  else if partialWild e.name then some .dstPartialWildcard
  else if e.sources = [] then some .noSources
  else validateSources legacy (e.name = star) e.sources []

/-! ### the store -/

structure Store where
  cfgMode : Bool                      -- system metadata `intention-format = config-entry`
  entries : List Entry := []          -- service-intentions config entries, at most one per name
  rows    : List (Name × Ixn) := []   -- legacy `connect-intentions` table: (ID, row), ID is the primary key
deriving Repr

/-- insert into the config-entry table; the primary key is the lower-cased name -/
def putEntry (es : List Entry) (e : Entry) : List Entry :=
  if es.any (fun x => sameName x.name e.name) then es.map (fun x => if sameName x.name e.name then e else x)
  else es ++ [e]

def getEntry (es : List Entry) (n : Name) : Option Entry := es.find? (fun e => sameName e.name n)

/-- what `ConfigEntry.Apply` does with a service-intentions entry: Normalize, Validate, EnsureConfigEntry -/
def applyEntry (st : Store) (e : Entry) : Store × Option Err :=
  let e' := normalize false e
  match validate false e' with
  | some err => (st, some err)
  | none => ({ st with entries := putEntry st.entries e' }, none)

def deleteEntry (st : Store) (n : Name) : Store :=
  { st with entries := st.entries.filter (fun e => !sameName e.name n) }

/-- `UpsertSourceByName`: replaces the first source with that *name* (the peer is not compared) -/
def upsertSource (n : Name) (v : Src) : List Src → List Src
  | [] => [v]
  | s :: rest => if s.name = n then v :: rest else s :: upsertSource n v rest

/-- `DeleteSourceByName`: removes the first source with that name; `none` if there is none -/
def deleteSource (n : Name) : List Src → Option (List Src)
  | [] => none
  | s :: rest => if s.name = n then some rest else (deleteSource n rest).map (s :: ·)

/-- `IntentionMutation(IntentionOpUpsert)` → `intentionMutationUpsert` -/
def mutUpsert (st : Store) (dst : Name) (v : Src) : Store × Option Err :=
  if !st.cfgMode then (st, some .notConfigMode) else
  let e : Entry := match getEntry st.entries dst with
    | none => ⟨dst, [v]⟩
    | some prev => ⟨prev.name, upsertSource v.name v prev.sources⟩
  let e' := normalize false e
  match validate false e' with
  | some err => (st, some err)
  | none => ({ st with entries := putEntry st.entries e' }, none)

/-- `IntentionMutation(IntentionOpDelete)` without id → `intentionMutationDelete` -/
def mutDelete (st : Store) (dst src : Name) : Store × Option Err :=
  if !st.cfgMode then (st, some .notConfigMode) else
  match getEntry st.entries dst with
  | none => (st, none)
  | some prev =>
    match deleteSource src prev.sources with
    | none => (st, none)
    | some [] => (deleteEntry st prev.name, none)
    | some rest =>
      let e' := normalize false ⟨prev.name, rest⟩
      match validate false e' with
      | some err => (st, some err)
      | none => ({ st with entries := putEntry st.entries e' }, none)

/-- `IntentionMutation(IntentionOpCreate)` → `intentionMutationLegacyCreate` (legacy API on config entries) -/
def mutLegacyCreate (st : Store) (dst : Name) (v : Src) : Store × Option Err :=
  if !st.cfgMode then (st, some .notConfigMode) else
  match getEntry st.entries dst with
  | none =>
    let e' := normalize true ⟨dst, [v]⟩
    match validate true e' with
    | some err => (st, some err)
    | none => ({ st with entries := putEntry st.entries e' }, none)
  | some prev =>
    if !(prev.sources.all (·.lid ≠ [])) then (st, some .legacyEditNotAllowed) else
    let e' := normalize true ⟨prev.name, prev.sources ++ [v]⟩
    match validate true e' with
    | some err => (st, some err)
    | none => ({ st with entries := putEntry st.entries e' }, none)

/-- `configIntentionGetTxn`: the entry holding a source with this legacy id. Legacy ids are unique across
    the store — the RPC layer draws them with `lib.GenerateUUID(checkIntentionID)` and memdb's
    `intention-legacy-id` index is declared unique — so "the first such entry" is "the" entry. -/
def findByLegacyId (es : List Entry) (id : Name) : Option Entry :=
  es.find? fun e => e.sources.any (·.lid = id)

/-- `UpdateSourceByLegacyID`: replaces the first source with that legacy id -/
def updateSourceByLid (id : Name) (v : Src) : List Src → Option (List Src)
  | [] => none
  | s :: rest => if s.lid = id then some (v :: rest) else (updateSourceByLid id v rest).map (s :: ·)

/-- `DeleteSourceByLegacyID` -/
def deleteSourceByLid (id : Name) : List Src → Option (List Src)
  | [] => none
  | s :: rest => if s.lid = id then some rest else (deleteSourceByLid id rest).map (s :: ·)

/-- `IntentionMutation(IntentionOpUpdate)` → `intentionMutationLegacyUpdate` (by legacy id) -/
def mutLegacyUpdate (st : Store) (id : Name) (v : Src) : Store × Option Err :=
  if !st.cfgMode then (st, some .notConfigMode) else
  match findByLegacyId st.entries id with
  | none => (st, some .notFound)
  | some prev =>
    if !(prev.sources.all (·.lid ≠ [])) then (st, some .legacyEditNotAllowed) else
    match updateSourceByLid id v prev.sources with
    | none => (st, some .notFound)
    | some srcs =>
      let e' := normalize true ⟨prev.name, srcs⟩
      match validate true e' with
      | some err => (st, some err)
      | none => ({ st with entries := putEntry st.entries e' }, none)

/-- `IntentionMutation(IntentionOpDelete)` with an id → `intentionMutationLegacyDelete` -/
def mutLegacyDelete (st : Store) (id : Name) : Store × Option Err :=
  if !st.cfgMode then (st, some .notConfigMode) else
  match findByLegacyId st.entries id with
  | none => (st, some .notFound)
  | some prev =>
    if !(prev.sources.all (·.lid ≠ [])) then (st, some .legacyEditNotAllowed) else
    match deleteSourceByLid id prev.sources with
    | none => (st, some .notFound)
    | some [] => (deleteEntry st prev.name, none)
    | some rest =>
      let e' := normalize true ⟨prev.name, rest⟩
      match validate true e' with
      | some err => (st, some err)
      | none => ({ st with entries := putEntry st.entries e' }, none)

/-- `LegacyIntentionSet` (legacy table) -/
def legacySet (st : Store) (id : Name) (r : Ixn) : Store × Option Err :=
  if st.cfgMode then (st, some .legacyDisabled)
  else if id = [] then (st, some .missingId)
  else
    let r' := { r with prec := precOf r.src r.dst }
    -- the unique `source_destination` index skips rows with an empty name (memdb `CompoundIndex`
    -- without AllowMissing: a missing field leaves the row unindexed), so those are never "duplicates";
    -- its keys are lower-cased
    if r.src ≠ [] && r.dst ≠ [] &&
        st.rows.any (fun x => sameName x.2.src r.src && sameName x.2.dst r.dst && x.1 ≠ id) then
      (st, some .dupLegacy)
    else if st.rows.any (·.1 = id) then
      ({ st with rows := st.rows.map fun x => if x.1 = id then (id, r') else x }, none)
    else ({ st with rows := st.rows ++ [(id, r')] }, none)

/-- `LegacyIntentionDelete` -/
def legacyDelete (st : Store) (id : Name) : Store × Option Err :=
  if st.cfgMode then (st, some .legacyDisabled)
  else ({ st with rows := st.rows.filter (·.1 ≠ id) }, none)

/-- the write operations of the store (what the engine's op lines parse to) -/
inductive Op
  | ent (e : Entry)                      -- ConfigEntry apply of a service-intentions entry
  | entdel (n : Name)                    -- DeleteConfigEntry
  | up (dst : Name) (v : Src)            -- IntentionMutation upsert
  | del (dst src : Name)                 -- IntentionMutation delete by name
  | lcreate (dst : Name) (v : Src)       -- IntentionMutation create (legacy API on config entries)
  | lupdate (id : Name) (v : Src)        -- IntentionMutation update by legacy id
  | ldelid (id : Name)                   -- IntentionMutation delete by legacy id
  | lset (id : Name) (r : Ixn)           -- LegacyIntentionSet
  | ldel (id : Name)                     -- LegacyIntentionDelete
deriving Repr

def applyOpE (st : Store) : Op → Store × Option Err
  | .ent e => applyEntry st e
  | .entdel n => (deleteEntry st n, none)
  | .up dst v => mutUpsert st dst v
  | .del dst src => mutDelete st dst src
  | .lcreate dst v => mutLegacyCreate st dst v
  | .lupdate id v => mutLegacyUpdate st id v
  | .ldelid id => mutLegacyDelete st id
  | .lset id r => legacySet st id r
  | .ldel id => legacyDelete st id

/-- a history of writes; rejected writes leave the store unchanged -/
def run (st : Store) (ops : List Op) : Store := ops.foldl (fun s o => (applyOpE s o).1) st

/-- a history of writes all of which are accepted -/
def runE (st : Store) : List Op → Option Store
  | [] => some st
  | o :: os => match applyOpE st o with
    | (st', none) => runE st' os
    | (_, some _) => none

/-! ### reads -/

/-- `getIntentionPrecedenceMatchServiceNames` (CE) -/
def matchNames (n : Name) : List Name := if n = star then [star] else [n, star]

/-- the concatenation `readDestinationIntentionsFromConfigEntriesTxn` sorts -/
def destRaw (es : List Entry) (n : Name) : List Ixn :=
  (matchNames n).flatMap fun m => match getEntry es m with
    | none => []
    | some e => e.toIxns

/-- the concatenation `readSourceIntentionsFromConfigEntriesTxn` sorts: entries found through the
    source index under the *local* peer, then every source of such an entry with that name
    (`src.SourceServiceName() == sn` does not look at the peer) -/
def sourceRaw (es : List Entry) (n : Name) : List Ixn :=
  (matchNames n).flatMap fun m =>
    (es.filter fun e => e.sources.any fun s => s.peer = [] && s.name = m).flatMap fun e =>
      (e.sources.filter (·.name = m)).map (toIxn e)

/-- `intentionMatchGetParams` with namespace `default`: `*` then the exact name -/
def legacyNames (n : Name) : List Name := if n = star then [star] else [star, n]

def legacyRaw (rows : List Ixn) (side : Side) (n : Name) : List Ixn :=
  (legacyNames n).flatMap fun m => rows.filter fun r =>
    match side with
    | .source => m ≠ [] && sameName r.src m   -- rows with an empty name are not in the (lower-cased) index
    | .destination => m ≠ [] && sameName r.dst m

/-- `Store.IntentionMatch` / `IntentionMatchOne` for one entry -/
def matchList (st : Store) (side : Side) (n : Name) : List Ixn :=
  if st.cfgMode then
    match side with
    | .source => sortIxns (sourceRaw st.entries n)
    | .destination => sortIxns (destRaw st.entries n)
  else sortIxns (legacyRaw (st.rows.map (·.2)) side n)

/-- every stored intention, unsorted -/
def flatten (st : Store) : List Ixn :=
  if st.cfgMode then st.entries.flatMap Entry.toIxns else st.rows.map (·.2)

/-- `Store.Intentions` -/
def listAll (st : Store) : List Ixn := sortIxns (flatten st)

/-- `Intention.Check` and the topology code: intentions matching the source, then the first one
    whose destination covers the target -/
def checkDecision (st : Store) (src dst : Name) (defaultAllow allowPerms : Bool) : Decision :=
  decision (matchList st .source src) .destination [] dst defaultAllow allowPerms

/-- agent authorize / downstream topology: intentions matching the destination, then the first one
    whose source (peer, name) covers the caller -/
def authzDecision (st : Store) (peer src dst : Name) (defaultAllow allowPerms : Bool) : Decision :=
  decision (matchList st .destination dst) .source peer src defaultAllow allowPerms

end CV.Ixn
