import CV.Proto
