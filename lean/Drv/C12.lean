import CV.Engine.C12
def main : IO Unit := CV.runEngine CV.Engine.C12.engine
