import CV.Engine.C07
def main : IO Unit := CV.runEngine CV.Engine.C07.engine
