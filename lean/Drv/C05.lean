import CV.Engine.C05
def main : IO Unit := CV.runEngine CV.Engine.C05.engine
