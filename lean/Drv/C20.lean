import CV.Engine.C20
def main : IO Unit := CV.runEngine CV.Engine.C20.engine
