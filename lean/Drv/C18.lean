import CV.Engine.C18
def main : IO Unit := CV.runEngine CV.Engine.C18.engine
