import CV.Engine.C01
def main : IO Unit := CV.runEngine CV.Engine.C01.engine
