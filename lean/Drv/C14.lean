import CV.Engine.C14
def main : IO Unit := CV.runEngine CV.Engine.C14.engine
