import CV.Engine.C09
def main : IO Unit := CV.runEngine CV.Engine.C09.engine
