import CV.Engine.C16
def main : IO Unit := CV.runEngine CV.Engine.C16.engine
