import CV.Engine.C11
def main : IO Unit := CV.runEngine CV.Engine.C11.engine
