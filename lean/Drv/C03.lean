import CV.Engine.C03
def main : IO Unit := CV.runEngine CV.Engine.C03.engine
