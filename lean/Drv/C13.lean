import CV.Engine.C13
def main : IO Unit := CV.runEngine CV.Engine.C13.engine
