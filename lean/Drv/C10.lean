import CV.Engine.C10
def main : IO Unit := CV.runEngine CV.Engine.C10.engine
