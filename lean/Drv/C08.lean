import CV.Engine.C08
def main : IO Unit := CV.runEngine CV.Engine.C08.engine
