import CV.Engine.C04
def main : IO Unit := CV.runEngine CV.Engine.C04.engine
