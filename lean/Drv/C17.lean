import CV.Engine.C17
def main : IO Unit := CV.runEngine CV.Engine.C17.engine
