import CV.Engine.C06
def main : IO Unit := CV.runEngine CV.Engine.C06.engine
