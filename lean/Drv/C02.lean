import CV.Engine.C02
def main : IO Unit := CV.runEngine CV.Engine.C02.engine
