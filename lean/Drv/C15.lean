import CV.Engine.C15
def main : IO Unit := CV.runEngine CV.Engine.C15.engine
