import CV.Engine.C19
def main : IO Unit := CV.runEngine CV.Engine.C19.engine
